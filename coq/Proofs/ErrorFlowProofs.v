(* C08: error values propagate through operators and can be trapped. *)
From HX Require Import Model.Value Model.Operators Model.Logic Model.ErrorFlow Proofs.LogicProofs.
From Coq Require Import Lia ZifyBool.
Open Scope Z_scope.

(* ---------- operators ---------- *)
Theorem bin_left_error b e rv : eval_bin b (VErr e) rv = Ret (VErr e).
Proof. destruct b; reflexivity. Qed.
Theorem bin_right_error b lv e : is_err lv = false -> eval_bin b lv (VErr e) = Ret (VErr e).
Proof. intros H. destruct b; destruct lv; try discriminate; reflexivity. Qed.
Theorem neg_error e : eval_neg (VErr e) = Ret (VErr e).
Proof. reflexivity. Qed.

(* ---------- evaluation of argument lists ---------- *)
Fixpoint eval_list (l : list expr) : list value + outcome :=
  match l with
  | [] => inl []
  | a :: r => match eval a with
              | Ret v => match eval_list r with inl vs => inl (v :: vs) | inr o => inr o end
              | o => inr o
              end
  end.
Lemma eval_call f args : eval (ECall f args) = match eval_list args with inl vs => call f vs | inr o => o end.
Proof.
  cbn [eval].
  assert (forall acc,
    (fix go (args : list expr) (acc : list value) : outcome :=
       match args with
       | [] => call f (rev acc)
       | a :: r => match eval a with Ret v => go r (v :: acc) | o => o end
       end) args acc = match eval_list args with inl vs => call f (rev acc ++ vs) | inr o => o end) as G.
  { induction args as [|a r IH]; intros acc.
    - cbn. rewrite app_nil_r. reflexivity.
    - cbn [eval_list]. destruct (eval a) as [v| |] eqn:E; try reflexivity.
      rewrite IH. destruct (eval_list r); [|reflexivity]. cbn [rev]. rewrite <- app_assoc. reflexivity. }
  rewrite G. reflexivity.
Qed.
Lemma eval_list_all l vs : Forall2 (fun a v => eval a = Ret v) l vs -> eval_list l = inl vs.
Proof. induction 1 as [|a v l vs E F IH]; [reflexivity|]. cbn [eval_list]. rewrite E, IH. reflexivity. Qed.

(* ---------- operators on trees: the operand's error is the result, the left one first ---------- *)
Theorem tree_bin_left_error b l r e rv : eval l = Ret (VErr e) -> eval r = Ret rv -> eval (EBin b l r) = Ret (VErr e).
Proof. intros El Er. cbn [eval]. rewrite El, Er. apply bin_left_error. Qed.
Theorem tree_bin_right_error b l r lv e : eval l = Ret lv -> is_err lv = false -> eval r = Ret (VErr e) ->
  eval (EBin b l r) = Ret (VErr e).
Proof. intros El Hl Er. cbn [eval]. rewrite El, Er. apply bin_right_error. exact Hl. Qed.
Theorem tree_neg_error x e : eval x = Ret (VErr e) -> eval (ENeg x) = Ret (VErr e).
Proof. intros E. cbn [eval]. rewrite E. reflexivity. Qed.

(* an error that reaches the top is reported under error, with an empty result *)
Theorem top_reports_error x e : eval x = Ret (VErr e) \/ eval x = RaiseErr e -> top (eval x) = RecError e.
Proof. intros [-> | ->]; reflexivity. Qed.
Theorem top_result_never_error x v : top (eval x) = RecResult v -> is_err v = false.
Proof. destruct (eval x) as [w|e|]; cbn; try discriminate. destruct w; try discriminate; intros E; inversion E; reflexivity. Qed.

(* ---------- raised errors (error literals, unknown names) abort the whole formula ---------- *)
Definition returns (x : expr) : Prop := exists v, eval x = Ret v.
Inductive raises_first (e : err) : expr -> Prop :=
  | rf_lit : raises_first e (EErrLit e)
  | rf_bin_l b l r : raises_first e l -> raises_first e (EBin b l r)
  | rf_bin_r b l r : returns l -> raises_first e r -> raises_first e (EBin b l r)
  | rf_neg x : raises_first e x -> raises_first e (ENeg x)
  | rf_call f pre a post : Forall returns pre -> raises_first e a -> raises_first e (ECall f (pre ++ a :: post)).

Lemma eval_list_raise pre a post e : Forall returns pre -> eval a = RaiseErr e -> eval_list (pre ++ a :: post) = inr (RaiseErr e).
Proof.
  induction 1 as [|p pre [v Ev] F IH]; intros Ea; cbn [app eval_list].
  - rewrite Ea. reflexivity.
  - rewrite Ev, (IH Ea). reflexivity.
Qed.
Theorem raised_error_aborts e x : raises_first e x -> eval x = RaiseErr e.
Proof.
  induction 1 as [|b l r H IH|b l r [v Ev] H IH|x H IH|f pre a post F H IH].
  - reflexivity.
  - cbn [eval]. rewrite IH. reflexivity.
  - cbn [eval]. rewrite Ev, IH. reflexivity.
  - cbn [eval]. rewrite IH. reflexivity.
  - rewrite eval_call, (eval_list_raise pre a post e F IH). reflexivity.
Qed.
Theorem error_literal_reports e x : raises_first e x -> top (eval x) = RecError e.
Proof. intros H. rewrite (raised_error_aborts e x H). reflexivity. Qed.
Theorem unknown_name_is_NAME : eval EUnknown = RaiseErr ENAME.
Proof. reflexivity. Qed.

(* ---------- errors produced inside functions become values at the call boundary ---------- *)
Theorem raising_function_yields_value e args vs : Forall2 (fun a v => eval a = Ret v) args vs ->
  eval (ECall (FRAISE e) args) = Ret (VErr e).
Proof. intros F. rewrite eval_call, (eval_list_all args vs F). reflexivity. Qed.
Theorem aggregate_error_yields_value args vs e : Forall2 (fun a v => eval a = Ret v) args vs ->
  first_error (flatten_args vs) = Some e -> eval (ECall FSUM args) = Ret (VErr e).
Proof. intros F H. rewrite eval_call, (eval_list_all args vs F). unfold call, body. rewrite H. reflexivity. Qed.

(* ---------- trapping ---------- *)
Theorem IFERROR_iff x y v w : eval x = Ret v -> eval y = Ret w ->
  eval (ECall FIFERROR [x; y]) = Ret (if is_err v then w else v).
Proof. intros Ex Ey. rewrite eval_call. cbn [eval_list]. rewrite Ex, Ey. reflexivity. Qed.
Theorem IFNA_iff x y v w : eval x = Ret v -> eval y = Ret w ->
  eval (ECall FIFNA [x; y]) = Ret (if p_ISNA v then w else v).
Proof.
  intros Ex Ey. rewrite eval_call. cbn [eval_list]. rewrite Ex, Ey. unfold call, body.
  destruct v as [| | | | |e0| |]; try reflexivity. destruct e0; reflexivity.
Qed.
Theorem IS_functions x v : eval x = Ret v ->
  eval (ECall FISERROR [x]) = Ret (VBool (p_ISERROR v)) /\ eval (ECall FISERR [x]) = Ret (VBool (p_ISERR v)) /\
  eval (ECall FISNA [x]) = Ret (VBool (p_ISNA v)) /\
  ((forall l, v <> VList l) -> eval (ECall FERRORTYPE [x]) = Ret (error_type v)).
Proof.
  intros Ex. repeat split; try (rewrite eval_call; cbn [eval_list]; rewrite Ex; reflexivity).
  intros NL. rewrite eval_call; cbn [eval_list]; rewrite Ex. destruct v; try reflexivity. exfalso. eapply NL. reflexivity.
Qed.
Theorem ISERROR_is_ISERR_or_ISNA v : p_ISERROR v = p_ISERR v || p_ISNA v.
Proof. exact (ISERROR_split v). Qed.
Theorem ERROR_TYPE_table :
  error_type (VErr ENULL) = VInt 1 /\ error_type (VErr EDIV0) = VInt 2 /\ error_type (VErr EVALUE) = VInt 3 /\
  error_type (VErr EREF) = VInt 4 /\ error_type (VErr ENAME) = VInt 5 /\ error_type (VErr ENUM) = VInt 6 /\
  error_type (VErr ENA) = VInt 7 /\ error_type (VErr EDATA) = VInt 8 /\
  (forall v, is_err v = false -> error_type v = VErr ENA).
Proof. repeat split; try reflexivity. intros v H. destruct v; try reflexivity; discriminate. Qed.

(* the traps observe every error VALUE, however deep it was produced: by an operator, by a function returning it,
   or by a function raising it *)
Inductive produces (e : err) : expr -> Prop :=
  | pr_val : produces e (EVal (VErr e))
  | pr_bin_l b l r : produces e l -> returns r -> produces e (EBin b l r)
  | pr_bin_r b l r lv : eval l = Ret lv -> is_err lv = false -> produces e r -> produces e (EBin b l r)
  | pr_neg x : produces e x -> produces e (ENeg x)
  | pr_div0 l r lv : e = EDIV0 -> eval l = Ret (VInt lv) -> eval r = Ret (VInt 0) -> produces e (EBin (BArith 3) l r)
  | pr_raise args vs : Forall2 (fun a v => eval a = Ret v) args vs -> produces e (ECall (FRAISE e) args)
  | pr_sum args vs : Forall2 (fun a v => eval a = Ret v) args vs -> first_error (flatten_args vs) = Some e ->
                     produces e (ECall FSUM args)
  | pr_ident x : produces e x -> produces e (ECall FIDENT [x])
  | pr_na : e = ENA -> produces e (ECall FNA []).
Theorem produces_value e x : produces e x -> eval x = Ret (VErr e).
Proof.
  induction 1 as [|b l r H IH [rv Er]|b l r lv El Hl H IH|x H IH|l r lv -> El Er|args vs F|args vs F Hs|x H IH| ->].
  - reflexivity.
  - apply (tree_bin_left_error b l r e rv IH Er).
  - apply (tree_bin_right_error b l r lv e El Hl IH).
  - apply tree_neg_error. exact IH.
  - cbn [eval]. rewrite El, Er. reflexivity.
  - apply (raising_function_yields_value e args vs F).
  - apply (aggregate_error_yields_value args vs e F Hs).
  - rewrite eval_call. cbn [eval_list]. rewrite IH. reflexivity.
  - reflexivity.
Qed.
Theorem traps_observe_every_error e x y w : produces e x -> eval y = Ret w ->
  eval (ECall FIFERROR [x; y]) = Ret w /\ eval (ECall FISERROR [x]) = Ret (VBool true) /\
  eval (ECall FISERR [x]) = Ret (VBool (negb (err_eqb e ENA))) /\ eval (ECall FISNA [x]) = Ret (VBool (err_eqb e ENA)) /\
  eval (ECall FIFNA [x; y]) = Ret (if err_eqb e ENA then w else VErr e).
Proof.
  intros P Ey. pose proof (produces_value e x P) as Ex.
  destruct (IS_functions x (VErr e) Ex) as (A & B & C & _).
  repeat split.
  - rewrite (IFERROR_iff x y (VErr e) w Ex Ey). reflexivity.
  - exact A.
  - rewrite B. destruct e; reflexivity.
  - rewrite C. destruct e; reflexivity.
  - rewrite (IFNA_iff x y (VErr e) w Ex Ey). destruct e; reflexivity.
Qed.
(* ... but a raised error (literal, unknown name) is not a value: the trap does not see it (C09 demands #NAME?) *)
Theorem raised_error_not_trapped e x y : raises_first e x -> eval (ECall FIFERROR [x; y]) = RaiseErr e.
Proof.
  intros H. apply raised_error_aborts. apply (rf_call e FIFERROR [] x [y]); [constructor|exact H].
Qed.
