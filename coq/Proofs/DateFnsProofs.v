(* C14: date and time functions against the proleptic Gregorian calendar. *)
From HX Require Import Model.Base Model.Calendar Model.Serial Model.DateFns
  Proofs.CalendarCycle Proofs.CalendarProofs Proofs.SerialProofs.
From Coq Require Import Lia.
Ltac Zify.zify_post_hook ::= Z.div_mod_to_equations.

(* ---------- DATE / TIME and their components ---------- *)
Theorem DATE_components y m d : 1900 <= y <= 9999 -> valid_ymd y m d = true ->
  exists t, fn_DATE y m d = DDate t /\ dyear t = y /\ dmonth t = m /\ dday t = d /\
            dhour t = 0 /\ dminute t = 0 /\ dsecond t = 0 /\ valid_dt t = true.
Proof.
  intros Hy V. unfold fn_DATE. destruct (y <? 1900) eqn:E; [lia|].
  assert (valid_dt (DT y m d 0 0 0 0) = true) as Vt.
  { unfold valid_dt. cbn [dyear dmonth dday dhour dminute dsecond dmicro]. rewrite V.
    repeat (apply andb_true_intro; split); lia. }
  cbv zeta. rewrite Vt. eexists; repeat split; try reflexivity; exact Vt.
Qed.

Theorem DATE_low_year y m d : 0 <= y < 1900 -> valid_ymd (1900 + y) m d = true ->
  exists t, fn_DATE y m d = DDate t /\ dyear t = 1900 + y /\ dmonth t = m /\ dday t = d.
Proof.
  intros Hy V. unfold fn_DATE. destruct (y <? 1900) eqn:E; [|lia]. replace (y + 1900) with (1900 + y) by lia.
  assert (valid_dt (DT (1900 + y) m d 0 0 0 0) = true) as Vt.
  { unfold valid_dt. cbn [dyear dmonth dday dhour dminute dsecond dmicro]. rewrite V.
    repeat (apply andb_true_intro; split); lia. }
  cbv zeta. rewrite Vt. eexists; repeat split; reflexivity.
Qed.

Theorem DATE_invalid_is_error y m d : 1900 <= y <= 9999 -> valid_ymd y m d = false -> fn_DATE y m d = DExc.
Proof.
  intros Hy V. unfold fn_DATE. destruct (y <? 1900) eqn:E; [lia|]. cbv zeta.
  unfold valid_dt. cbn [dyear dmonth dday dhour dminute dsecond dmicro]. rewrite V.
  rewrite andb_false_r. reflexivity.
Qed.

Theorem TIME_components h mi s : 0 <= h <= 23 -> 0 <= mi <= 59 -> 0 <= s <= 59 ->
  exists t, fn_TIME h mi s = DDate t /\ dhour t = h /\ dminute t = mi /\ dsecond t = s.
Proof.
  intros Hh Hm Hs. unfold fn_TIME.
  assert (valid_dt (DT 1900 1 1 h mi s 0) = true) as Vt.
  { unfold valid_dt. cbn [dyear dmonth dday dhour dminute dsecond dmicro].
    change (valid_ymd 1900 1 1) with true. repeat (apply andb_true_intro; split); lia. }
  cbv zeta. rewrite Vt. eexists; repeat split; reflexivity.
Qed.

(* ---------- components read from whole-day serial numbers ---------- *)
Theorem serial_fields_calendar n : 61 <= n ->
  exists t, serial_fields n = Some t /\
    (dyear t, dmonth t, dday t) = ord2ymd (n + 693594) /\ dhour t = 0 /\ dminute t = 0 /\ dsecond t = 0.
Proof.
  intros H. unfold serial_fields, parse_us. rewrite day_val, us1900_val, day_val.
  destruct (n * 86400000000 <? 0) eqn:A; [exfalso; lia|].
  destruct (n * 86400000000 <? 86400000000) eqn:B; [exfalso; lia|].
  destruct (n * 86400000000 <=? 60 * 86400000000) eqn:C; [exfalso; lia|].
  eexists; split; [reflexivity|]. unfold of_us.
  replace (693596 * 86400000000 + (n * 86400000000 - 2 * 86400000000)) with ((n + 693594) * us_per_day)
    by (unfold us_per_day; lia).
  rewrite Z.div_mul by (unfold us_per_day; lia). rewrite Z.mod_mul by (unfold us_per_day; lia).
  destruct (ord2ymd (n + 693594)) as [[y m] d]. cbn. repeat split; reflexivity.
Qed.

(* the serial of DATE(y,m,d) reads back as y, m, d (dates from 1 March 1900 on) *)
Theorem serial_of_DATE_reads_back t : valid_dt t = true -> us1900 <= to_us t -> parse_us (serial_us t) = Some t.
Proof. exact (serial_roundtrip t). Qed.

(* ---------- WEEKDAY ---------- *)
Definition ord_of (t : datetime) : Z := ymd2ord (dyear t) (dmonth t) (dday t).

Theorem WEEKDAY_type1 t : fn_WEEKDAY t 1 = DVal (ord_of t mod 7 + 1).
Proof.
  unfold fn_WEEKDAY, weekday_of_ord, ord_of.
  change (1 =? 3) with false. change (1 =? 2) with false. change (1 =? 1) with true. cbv iota.
  destruct ((ymd2ord (dyear t) (dmonth t) (dday t) + 6) mod 7 =? 6) eqn:E; f_equal; lia.
Qed.
Theorem WEEKDAY_type2 t : fn_WEEKDAY t 2 = DVal ((ord_of t + 6) mod 7 + 1).
Proof. reflexivity. Qed.
Theorem WEEKDAY_type3 t : fn_WEEKDAY t 3 = DVal ((ord_of t + 6) mod 7).
Proof. reflexivity. Qed.
Theorem WEEKDAY_other_type t ty : ty <> 1 -> ty <> 2 -> ty <> 3 -> fn_WEEKDAY t ty = DNum.
Proof.
  intros H1 H2 H3. unfold fn_WEEKDAY.
  destruct (ty =? 3) eqn:A; [lia|]. destruct (ty =? 2) eqn:B; [lia|]. destruct (ty =? 1) eqn:C; [lia|]. reflexivity.
Qed.
(* the numbering is the true day of the week: it advances by one (mod 7) with each day,
   and is anchored on known days *)
Theorem weekday_advances n : weekday_of_ord (n + 1) = (weekday_of_ord n + 1) mod 7.
Proof. unfold weekday_of_ord. lia. Qed.
Theorem weekday_range n : 0 <= weekday_of_ord n <= 6.
Proof. unfold weekday_of_ord. lia. Qed.
Example weekday_anchors :
  weekday_of_ord (ymd2ord 1900 1 1) = 0 (* Monday *) /\
  weekday_of_ord (ymd2ord 2000 1 1) = 5 (* Saturday *) /\
  weekday_of_ord (ymd2ord 2024 2 29) = 3 (* Thursday *) /\
  weekday_of_ord (ymd2ord 9999 12 31) = 4 (* Friday *).
Proof. repeat split; reflexivity. Qed.

(* ---------- DAYS / DATEDIF "d" ---------- *)
Definition midnight (t : datetime) : Prop := us_of_day t = 0.

Theorem DAYS_calendar e s : to_us dt_mar1 <= to_us e -> to_us dt_mar1 <= to_us s ->
  midnight e -> midnight s -> fn_DAYS_us e s = (ord_of e - ord_of s) * day.
Proof.
  intros He Hs Me Ms. unfold fn_DAYS_us. rewrite (serial_excel e He), (serial_excel s Hs).
  unfold to_us, ord_of, midnight, day in *. lia.
Qed.

(* inside January/February 1900 (excluding the serial-0 instant) the difference is also right *)
Theorem DAYS_calendar_early e s : us1900 < to_us e -> to_us e < to_us dt_mar1 ->
  us1900 < to_us s -> to_us s < to_us dt_mar1 -> midnight e -> midnight s ->
  fn_DAYS_us e s = (ord_of e - ord_of s) * day.
Proof.
  intros He1 He2 Hs1 Hs2 Me Ms. unfold fn_DAYS_us.
  rewrite (serial_before_march e He1 He2), (serial_before_march s Hs1 Hs2).
  unfold to_us, ord_of, midnight, day in *. lia.
Qed.

(* the full statement is false of the faithful model: Excel's phantom 29 February 1900 *)
Theorem DAYS_calendar_refuted : exists e s, valid_dt e = true /\ valid_dt s = true /\ midnight e /\ midnight s /\
  us1900 <= to_us s /\ fn_DAYS_us e s <> (ord_of e - ord_of s) * day.
Proof.
  exists (DT 1900 3 1 0 0 0 0), (DT 1900 2 28 0 0 0 0). repeat split; try reflexivity.
  - vm_compute. discriminate.
  - vm_compute. discriminate.
Qed.

Theorem DATEDIF_d s e : to_us dt_mar1 <= to_us s -> to_us s < to_us e -> midnight e -> midnight s ->
  fn_DATEDIF s e 0 = DVal (ord_of e - ord_of s).
Proof.
  intros Hs Hlt Me Ms. unfold fn_DATEDIF.
  destruct (to_us s =? to_us e) eqn:A; [lia|]. destruct (to_us s <? to_us e) eqn:B; [|lia].
  f_equal. pose proof (DAYS_calendar e s ltac:(lia) Hs Me Ms) as D. unfold fn_DAYS_us in D. rewrite D.
  rewrite day_val. rewrite Z.quot_mul by lia. reflexivity.
Qed.

Theorem DATEDIF_start_after_end s e u : to_us e < to_us s -> fn_DATEDIF s e u = DNum.
Proof.
  intros H. unfold fn_DATEDIF. destruct (to_us s =? to_us e) eqn:A; [lia|].
  destruct (to_us s <? to_us e) eqn:B; [lia|]. reflexivity.
Qed.

(* ---------- DATEDIF "m", "y", "ym": whole months / whole years, declaratively ---------- *)
(* lexicographic <= on (month index, day) *)
Definition md_le (a1 a2 b1 b2 : Z) : Prop := a1 < b1 \/ (a1 = b1 /\ a2 <= b2).
Definition month_index (t : datetime) : Z := dyear t * 12 + (dmonth t - 1).

(* k whole months lie between s and e:  s + k months <= e < s + (k+1) months, comparing (month index, day) *)
Definition whole_months (s e : datetime) (k : Z) : Prop :=
  md_le (month_index s + k) (dday s) (month_index e) (dday e) /\
  ~ md_le (month_index s + k + 1) (dday s) (month_index e) (dday e).

Theorem DATEDIF_m s e : to_us s < to_us e ->
  exists k, fn_DATEDIF s e 1 = DVal k /\ whole_months s e k.
Proof.
  intros H. unfold fn_DATEDIF. destruct (to_us s =? to_us e) eqn:A; [lia|].
  destruct (to_us s <? to_us e) eqn:B; [|lia].
  eexists; split; [reflexivity|]. unfold whole_months, md_le, month_index.
  destruct (dday e <? dday s) eqn:C; lia.
Qed.

Theorem whole_months_unique s e k k' : whole_months s e k -> whole_months s e k' -> k = k'.
Proof. unfold whole_months, md_le. lia. Qed.

(* k whole years: (year s + k, month s, day s) <= (year e, month e, day e) < (year s + k + 1, ...) *)
Definition ymd_le (y1 m1 d1 y2 m2 d2 : Z) : Prop :=
  y1 < y2 \/ (y1 = y2 /\ (m1 < m2 \/ (m1 = m2 /\ d1 <= d2))).
Definition whole_years (s e : datetime) (k : Z) : Prop :=
  ymd_le (dyear s + k) (dmonth s) (dday s) (dyear e) (dmonth e) (dday e) /\
  ~ ymd_le (dyear s + k + 1) (dmonth s) (dday s) (dyear e) (dmonth e) (dday e).

Theorem DATEDIF_y s e : to_us s < to_us e ->
  exists k, fn_DATEDIF s e 2 = DVal k /\ whole_years s e k.
Proof.
  intros H. unfold fn_DATEDIF. destruct (to_us s =? to_us e) eqn:A; [lia|].
  destruct (to_us s <? to_us e) eqn:B; [|lia].
  eexists; split; [reflexivity|]. unfold whole_years, ymd_le.
  destruct (dmonth e <? dmonth s) eqn:C; destruct (dmonth e =? dmonth s) eqn:D;
    destruct (dday e <? dday s) eqn:E; cbn [orb andb]; lia.
Qed.

Theorem DATEDIF_ym s e : to_us s < to_us e ->
  exists k, fn_DATEDIF s e 1 = DVal k /\ fn_DATEDIF s e 3 = DVal (k mod 12) /\ 0 <= k mod 12 < 12.
Proof.
  intros H. unfold fn_DATEDIF. destruct (to_us s =? to_us e) eqn:A; [lia|].
  destruct (to_us s <? to_us e) eqn:B; [|lia].
  eexists; split; [reflexivity|]. split; [reflexivity|]. apply Z.mod_pos_bound. lia.
Qed.

Theorem DATEDIF_same s u : fn_DATEDIF s s u = DVal 0.
Proof. unfold fn_DATEDIF. rewrite Z.eqb_refl. reflexivity. Qed.

(* the months/years between valid dates with s < e are non-negative *)
Theorem DATEDIF_m_nonneg s e k : valid_dt s = true -> valid_dt e = true -> dt_lt s e ->
  whole_months s e k -> 0 <= k.
Proof.
  intros Vs Ve L [W1 W2]. unfold md_le, month_index in *.
  pose proof (valid_dt_inv s Vs) as (_ & Vds & _). pose proof (valid_dt_inv e Ve) as (_ & Vde & _).
  apply valid_ymd_inv in Vds. apply valid_ymd_inv in Vde.
  destruct L as [L|[L _]].
  - unfold ymd_lt in L. lia.
  - inversion L. lia.
Qed.

(* ---------- EDATE ---------- *)
Theorem EDATE_spec t k : valid_dt t = true ->
  let M := month_index t + k in
  let y := M / 12 in let m := M mod 12 + 1 in
  fn_EDATE t k = if (9999 <? y) || (y <? 1900) then DNum
                 else DDate (DT y m (Z.min (dday t) (days_in_month y m)) 0 0 0 0).
Proof.
  intros V. pose proof (valid_dt_inv t V) as (Hy & Vd & _). apply valid_ymd_inv in Vd. destruct Vd as [Hm Hd].
  cbv zeta. unfold fn_EDATE, month_index.
  assert ((dyear t * 12 + (dmonth t - 1) + k) / 12 = dyear t + k / 12 + (if 12 <? dmonth t + k mod 12 then 1 else 0)) as Ey
    by (destruct (12 <? dmonth t + k mod 12) eqn:?; lia).
  assert ((dyear t * 12 + (dmonth t - 1) + k) mod 12 + 1 =
          if 12 <? dmonth t + k mod 12 then dmonth t + k mod 12 - 12 else dmonth t + k mod 12) as Em
    by (destruct (12 <? dmonth t + k mod 12) eqn:?; lia).
  rewrite Ey, Em. destruct (12 <? dmonth t + k mod 12) eqn:A.
  - reflexivity.
  - destruct (dmonth t + k mod 12 <? 1) eqn:B; [lia|]. rewrite Z.add_0_r. reflexivity.
Qed.

Theorem EDATE_result_valid t k t' : valid_dt t = true -> fn_EDATE t k = DDate t' ->
  valid_dt t' = true /\ 1900 <= dyear t' <= 9999 /\
  dday t' = Z.min (dday t) (days_in_month (dyear t') (dmonth t')) /\
  month_index t' = month_index t + k.
Proof.
  intros V E. pose proof (EDATE_spec t k V) as S. cbv zeta in S. rewrite S in E. clear S.
  pose proof (valid_dt_inv t V) as (Hy & Vd & _). apply valid_ymd_inv in Vd. destruct Vd as [Hm Hd].
  set (M := month_index t + k) in *.
  destruct ((9999 <? M / 12) || (M / 12 <? 1900)) eqn:R; [discriminate|].
  apply orb_false_elim in R. destruct R as [R1 R2].
  inversion E as [E']. clear E. cbn [dyear dmonth dday].
  assert (1 <= M mod 12 + 1 <= 12) as Hmm by lia.
  assert (28 <= days_in_month (M / 12) (M mod 12 + 1)) as Hdim.
  { unfold days_in_month. destruct ((M mod 12 + 1 =? 2) && is_leap (M / 12)); [lia|].
    destruct (month_cases (M mod 12 + 1) Hmm) as [->|[->|[->|[->|[->|[->|[->|[->|[->|[->|[->| ->]]]]]]]]]]]; cbn; lia. }
  repeat split; try lia.
  - unfold valid_dt, valid_ymd. cbn [dyear dmonth dday dhour dminute dsecond dmicro].
    repeat (apply andb_true_intro; split); lia.
  - unfold month_index. cbn [dyear dmonth]. lia.
Qed.

Theorem EDATE_out_of_range t k : valid_dt t = true ->
  (month_index t + k < 1900 * 12 \/ 10000 * 12 <= month_index t + k) -> fn_EDATE t k = DNum.
Proof.
  intros V H. pose proof (EDATE_spec t k V) as S. cbv zeta in S. rewrite S.
  destruct (9999 <? (month_index t + k) / 12) eqn:A; [reflexivity|].
  destruct ((month_index t + k) / 12 <? 1900) eqn:B; [reflexivity|]. lia.
Qed.
