# -*- coding: utf-8 -*-
"""Generates coq/Gen/Wrapper.v from the source of the tree under test (python ast, fail-closed):
  - formulas/error.py: the error constants and the table of from_message (spelling -> constant), its default;
  - hotxlfp/parser.py Parser.parse: the shape of the wrapper (empty text, catch-all handler mapping through
    from_message, no re-raise, finally without return/raise, error-object result moved to the error entry, the
    two-key record);
  - grammarparser/parser.py: p_error / p_xlerror go through throw_error; Parser._throw_error raises from_message(...).
Anything the translator does not recognise clears wrapper_gen_ok."""
import ast
import os
import sys


def zl(s):
    return '[' + '; '.join(str(ord(c)) for c in s) + ']'


def find_func(tree, name, cls=None):
    for node in ast.walk(tree):
        if cls is not None and isinstance(node, ast.ClassDef) and node.name == cls:
            for f in node.body:
                if isinstance(f, ast.FunctionDef) and f.name == name:
                    return f
        if cls is None and isinstance(node, ast.FunctionDef) and node.name == name:
            return node
    return None


def no_doc(body):
    return [s for s in body if not (isinstance(s, ast.Expr) and isinstance(getattr(s, 'value', None), ast.Constant) and isinstance(s.value.value, str))]


def dump(n):
    return ast.dump(n, annotate_fields=False)


def generate(repo_root):
    ok = True
    notes = []

    def need(cond, what):
        nonlocal ok
        if not cond:
            ok = False
            notes.append(what)
    # ---- error.py
    et = ast.parse(open(os.path.join(repo_root, 'hotxlfp', 'formulas', 'error.py')).read())
    consts = {}
    for s in et.body:
        if isinstance(s, ast.Assign) and len(s.targets) == 1 and isinstance(s.targets[0], ast.Name) and isinstance(s.value, ast.Call) \
                and isinstance(s.value.func, ast.Name) and s.value.func.id == 'XLError' and len(s.value.args) == 1 \
                and isinstance(s.value.args[0], ast.Constant):
            consts[s.targets[0].id] = s.value.args[0].value
    fm = find_func(et, 'from_message')
    table = []
    default = None
    need(fm is not None, 'from_message not found')
    if fm is not None:
        body = no_doc(fm.body)
        # table; try: code = str(message) / except Exception: return DEFAULT; return table.get(code, DEFAULT)
        need(len(body) == 3 and isinstance(body[0], ast.Assign) and isinstance(body[0].value, ast.Dict) and isinstance(body[1], ast.Try)
             and isinstance(body[2], ast.Return), 'from_message is not "table; try: code = str(message) except: return default; return table.get(code, default)"')
        if ok:
            d = body[0].value
            for k, v in zip(d.keys, d.values):
                need(isinstance(k, ast.Constant) and isinstance(v, ast.Name) and v.id in consts, 'from_message table entry not understood')
                if ok:
                    table.append((k.value, consts[v.id]))
            t = body[1]
            need([dump(x) for x in t.body] == [dump(x) for x in ast.parse('code = str(message)').body] and len(t.handlers) == 1
                 and isinstance(t.handlers[0].type, ast.Name) and t.handlers[0].type.id in ('Exception', 'BaseException')
                 and len(t.handlers[0].body) == 1 and isinstance(t.handlers[0].body[0], ast.Return)
                 and isinstance(t.handlers[0].body[0].value, ast.Name) and t.handlers[0].body[0].value.id in consts
                 and not t.orelse and not t.finalbody, 'from_message: guarded str(message) not understood')
            r = body[2].value
            need(isinstance(r, ast.Call) and isinstance(r.func, ast.Attribute) and r.func.attr == 'get' and len(r.args) == 2
                 and isinstance(r.args[0], ast.Name) and r.args[0].id == 'code' and isinstance(r.args[1], ast.Name) and r.args[1].id in consts,
                 'from_message return not understood')
            if ok:
                default = consts[r.args[1].id]
                need(consts[t.handlers[0].body[0].value.id] == default, 'from_message: the two defaults differ')
    # ---- Parser.parse
    pt = ast.parse(open(os.path.join(repo_root, 'hotxlfp', 'parser.py')).read())
    pf = find_func(pt, 'parse', 'Parser')
    need(pf is not None, 'Parser.parse not found')
    facts = dict(empty_text=False, catch_all=False, maps_from_message=False, no_reraise=False, finally_clean=False,
                 error_result_moved=False, two_keys=False)
    if pf is not None:
        body = no_doc(pf.body)
        tries = [s for s in body if isinstance(s, ast.Try)]
        need(len(tries) == 1, 'Parser.parse: exactly one try statement expected')
        if tries:
            t = tries[0]
            # everything that can raise sits inside the try
            before = body[:body.index(t)]
            need(all(isinstance(s, ast.Assign) and isinstance(s.value, ast.Constant) for s in before), 'Parser.parse: statements before try are not constant assignments')
            tb = t.body
            if len(tb) == 1 and isinstance(tb[0], ast.If) and dump(tb[0].test) == dump(ast.parse("expression == ''").body[0].value):
                br = tb[0].body
                facts['empty_text'] = len(br) == 1 and dump(br[0]) == dump(ast.parse("result = ''").body[0])
                el = tb[0].orelse
                need(len(el) == 1 and dump(el[0]) == dump(ast.parse('result = self.parser.parse(expression)').body[0]), 'Parser.parse: evaluation statement not understood')
            else:
                need(False, 'Parser.parse: try body not understood')
            hs = t.handlers
            if len(hs) == 1 and isinstance(hs[0].type, ast.Name) and hs[0].type.id in ('Exception', 'BaseException'):
                facts['catch_all'] = True
                hb = hs[0].body
                facts['no_reraise'] = not any(isinstance(n, ast.Raise) for s in hb for n in ast.walk(s)) and \
                    not any(isinstance(n, ast.Return) for s in hb for n in ast.walk(s))
                want = dump(ast.parse('error = str(formulaserror.from_message(%s))' % hs[0].name).body[0])
                facts['maps_from_message'] = any(dump(s) == want for s in hb) and dump(hb[-1]) == want
            fb = t.finalbody
            facts['finally_clean'] = not any(isinstance(n, (ast.Raise, ast.Return, ast.Break, ast.Continue)) for s in fb for n in ast.walk(s))
            need(not t.orelse, 'Parser.parse: try/else not expected')
            after = body[body.index(t) + 1:]
            if len(after) == 2 and isinstance(after[0], ast.If) and isinstance(after[1], ast.Return):
                facts['error_result_moved'] = dump(after[0].test) == dump(ast.parse('isinstance(result, formulaserror.XLError)').body[0].value) and \
                    [dump(s) for s in after[0].body] == [dump(s) for s in ast.parse('error = str(formulaserror.from_message(result))\nresult = None').body] and not after[0].orelse
                facts['two_keys'] = dump(after[1].value) == dump(ast.parse("{'result': result, 'error': error}").body[0].value)
            else:
                need(False, 'Parser.parse: statements after try not understood')
    te = find_func(pt, '_throw_error', 'Parser')
    throw_ok = te is not None and [dump(s) for s in no_doc(te.body)] == [dump(s) for s in ast.parse('raise formulaserror.from_message(error_name)').body]
    gt = ast.parse(open(os.path.join(repo_root, 'hotxlfp', 'grammarparser', 'parser.py')).read())
    pe = find_func(gt, 'p_error', 'FormulaParser')
    perr_ok = pe is not None and [dump(s) for s in no_doc(pe.body)] == [dump(s) for s in ast.parse('p[0] = self.throw_error(error.ERROR)').body]
    px = find_func(gt, 'p_xlerror', 'FormulaParser')
    pxl_ok = px is not None and [dump(s) for s in no_doc(px.body)] == [dump(s) for s in ast.parse('p[0] = self.throw_error(p[1])').body]
    for k, v in facts.items():
        need(v, 'Parser.parse: %s not established' % k)
    need(throw_ok, 'Parser._throw_error not understood')
    need(perr_ok, 'FormulaParser.p_error not understood')
    need(pxl_ok, 'FormulaParser.p_xlerror not understood')
    need(default is not None, 'from_message default not understood')

    def b(x):
        return 'true' if x else 'false'
    out = ['(* GENERATED by tools/gen/wrapper.py from hotxlfp/formulas/error.py, hotxlfp/parser.py, grammarparser/parser.py. *)',
           'From Coq Require Import ZArith List Bool.', 'Import ListNotations.', 'Open Scope Z_scope.',
           '(* from_message: message text -> spelling of the error constant it returns *)',
           'Definition from_message_table : list (list Z * list Z) := [\n  %s\n].' % ';\n  '.join('(%s, %s)' % (zl(k), zl(v)) for k, v in table),
           'Definition from_message_default : list Z := %s.' % zl(default or ''),
           'Definition error_constants : list (list Z) := [%s].' % '; '.join(zl(v) for v in consts.values())]
    for k, v in facts.items():
        out.append('Definition wrap_%s : bool := %s.' % (k, b(v)))
    out.append('Definition throw_error_raises_from_message : bool := %s.' % b(throw_ok))
    out.append('Definition p_error_throws_ERROR : bool := %s.' % b(perr_ok))
    out.append('Definition p_xlerror_throws_token : bool := %s.' % b(pxl_ok))
    out.append('Definition wrapper_gen_ok : bool := %s.' % b(ok))
    out.append('(* notes: %s *)' % ('; '.join(notes).replace('*)', '* )') if notes else 'none'))
    return '\n'.join(out) + '\n'


def write(path, repo_root):
    new = generate(repo_root)
    old = open(path).read() if os.path.exists(path) else None
    if old != new:
        with open(path, 'w') as f:
            f.write(new)
        return True
    return False


if __name__ == '__main__':
    print('changed' if write(sys.argv[1], sys.argv[2]) else 'unchanged')
