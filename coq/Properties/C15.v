(* C15 — Text functions satisfy the string algebra they document.
   Property theorems only; proofs are in Proofs/TextProofs.v and Proofs/TextAlgebra.v.  Case tables: Gen/CaseTables.v (generated). *)
From HX Require Import Model.Value Model.Text Model.PySlice Gen.CaseTables Gen.TextSlices Proofs.TextProofs Proofs.TextAlgebra Proofs.SliceProofs.
Open Scope Z_scope.

(* LEFT / RIGHT / MID: the requested leading, trailing, inner characters *)
Theorem C15_LEFT : forall s n, 0 <= n -> fn_LEFT s n = TOk (firstn (Z.to_nat n) s).
Proof. exact LEFT_spec. Qed.
Theorem C15_RIGHT : forall s n, 0 <= n <= zlen s -> fn_RIGHT s n = TOk (skipn (length s - Z.to_nat n) s).
Proof. exact RIGHT_spec. Qed.
Theorem C15_MID : forall s st n, 1 <= st -> 0 <= n ->
  fn_MID s st n = TOk (firstn (Z.to_nat n) (skipn (Z.to_nat (st - 1)) s)).
Proof. exact MID_spec. Qed.
Theorem C15_whole_text_when_more_requested : forall s n, zlen s <= n -> fn_LEFT s n = TOk s /\ fn_RIGHT s n = TOk s.
Proof. intros s n H. split; [exact (LEFT_whole s n H)|exact (RIGHT_whole s n H)]. Qed.
Theorem C15_zero_count_is_empty : forall s, fn_LEFT s 0 = TOk [] /\ fn_RIGHT s 0 = TOk [].
Proof. intros s. split; [exact (LEFT_zero s)|exact (RIGHT_zero s)]. Qed.
Theorem C15_negative_count_is_VALUE : forall s n st, n < 0 ->
  fn_LEFT s n = TValue /\ fn_RIGHT s n = TValue /\ fn_MID s st n = TValue.
Proof. exact negative_count_is_VALUE. Qed.
Theorem C15_left_right_split : forall s n, 0 <= n <= zlen s ->
  exists a b, fn_LEFT s n = TOk a /\ fn_RIGHT s (fn_LEN s - n) = TOk b /\ a ++ b = s.
Proof. exact left_right_split. Qed.
Theorem C15_mid_is_left : forall s n, fn_MID s 1 n = fn_LEFT s n.
Proof. exact mid_is_left. Qed.
Theorem C15_len_concat : forall a b, fn_LEN (a ++ b) = fn_LEN a + fn_LEN b.
Proof. exact len_concat. Qed.

(* UPPER / LOWER / PROPER / TRIM / CLEAN: idempotent, and change only case / surplus spaces / control characters *)
Theorem C15_UPPER_idempotent : forall s, fn_UPPER (fn_UPPER s) = fn_UPPER s.
Proof. exact UPPER_idempotent. Qed.
Theorem C15_LOWER_idempotent : forall s, fn_LOWER (fn_LOWER s) = fn_LOWER s.
Proof. exact LOWER_idempotent. Qed.
Theorem C15_case_functions_fix_uncased : forall s, Forall (fun c => cased c = false) s ->
  fn_UPPER s = s /\ fn_LOWER s = s /\ fn_PROPER s = s.
Proof. intros s F. destruct (UPPER_LOWER_fix_uncased s F). repeat split; try assumption. exact (PROPER_fix_uncased s F). Qed.
Theorem C15_case_functions_charwise : forall a b,
  fn_UPPER (a ++ b) = fn_UPPER a ++ fn_UPPER b /\ fn_LOWER (a ++ b) = fn_LOWER a ++ fn_LOWER b.
Proof. exact UPPER_LOWER_charwise. Qed.
(* PROPER is idempotent on every text all of whose characters satisfy the decidable per-character condition;
   the full statement is false of the faithful model (recorded known finding: U+0130, U+01F0) *)
Theorem C15_PROPER_idempotent_partial : forall s, Forall (fun c => proper_char_ok c = true) s ->
  fn_PROPER (fn_PROPER s) = fn_PROPER s.
Proof. exact PROPER_idempotent_partial. Qed.
Theorem C15_PROPER_idempotent_refuted : exists s, fn_PROPER (fn_PROPER s) <> fn_PROPER s.
Proof. exact PROPER_idempotent_refuted. Qed.
(* the exceptional characters, computed from the generated table: exactly two *)
Example C15_PROPER_exceptions : proper_exceptions = [304; 496].
Proof. vm_compute. reflexivity. Qed.
Theorem C15_PROPER_ok_outside_table : forall c, lookup_case c case_rows = None -> proper_char_ok c = true.
Proof. exact proper_ok_outside_table. Qed.

Theorem C15_TRIM_idempotent : forall s, fn_TRIM (fn_TRIM s) = fn_TRIM s.
Proof. exact TRIM_idempotent. Qed.
Theorem C15_TRIM_only_spaces : forall s, nonspace (fn_TRIM s) = nonspace s /\ trimmed (fn_TRIM s).
Proof. intros s. split; [exact (TRIM_keeps_nonspaces s)|exact (TRIM_normal s)]. Qed.
Theorem C15_TRIM_fixed : forall s, trimmed s -> fn_TRIM s = s.
Proof. exact TRIM_fixed. Qed.
Theorem C15_CLEAN_idempotent : forall s, fn_CLEAN (fn_CLEAN s) = fn_CLEAN s.
Proof. exact CLEAN_idempotent. Qed.
Theorem C15_CLEAN_only_controls : forall s, fn_CLEAN s = filter (fun c => negb (c <=? 31)) s /\
  (Forall (fun c => 31 < c) s -> fn_CLEAN s = s).
Proof. exact CLEAN_removes_only_controls. Qed.

Theorem C15_CODE_CHAR : forall n, 0 <= n <= 1114111 -> exists s, fn_CHAR n = TOk s /\ fn_CODE s = Some n.
Proof. exact CODE_CHAR. Qed.

(* CONCATENATE / TEXTJOIN over the (flattened) items, in order *)
Theorem C15_CONCATENATE : forall a b, concat_items (a ++ b) = concat_items a ++ concat_items b.
Proof. exact CONCATENATE_spec. Qed.
Theorem C15_TEXTJOIN : forall d p r, r <> [] -> join d (p :: r) = p ++ d ++ join d r.
Proof. exact TEXTJOIN_spec. Qed.
Theorem C15_TEXTJOIN_blanks : forall d items,
  fn_TEXTJOIN d true items = join d (flat_map (fun i => match i with Some s => [s] | None => [] end) items) /\
  fn_TEXTJOIN d false items = join d (map (fun i => match i with Some s => s | None => [] end) items).
Proof. exact TEXTJOIN_skips_blanks. Qed.

(* SUBSTITUTE *)
Theorem C15_SUBSTITUTE_absent : forall text old new k, old <> [] -> occurs old text = false ->
  fn_SUBSTITUTE text old new None = TOk text /\ (1 <= k -> fn_SUBSTITUTE text old new (Some k) = TOk text).
Proof. exact SUBSTITUTE_absent. Qed.
Theorem C15_SUBSTITUTE_all : forall text old new, text <> [] -> old <> [] ->
  fn_SUBSTITUTE text old new None = TOk (subst_all old new text).
Proof. exact SUBSTITUTE_all. Qed.
Theorem C15_SUBSTITUTE_every_occurrence : forall old new a b, old <> [] -> first_at old a b ->
  subst_all old new (a ++ old ++ b) = a ++ new ++ subst_all old new b.
Proof. exact SUBSTITUTE_all_step. Qed.
Theorem C15_SUBSTITUTE_kth : forall text old new k, text <> [] -> old <> [] -> 1 <= k ->
  fn_SUBSTITUTE text old new (Some k) =
    match nth_error (positions old text 0) (Z.to_nat (k - 1)) with
    | Some i => TOk (firstn i text ++ new ++ skipn (i + length old) text)
    | None => TOk text
    end.
Proof. exact SUBSTITUTE_kth. Qed.
Theorem C15_positions_are_occurrences : forall old s i,
  In i (positions old s 0) <-> (i < length s)%nat /\ is_prefix old (skipn i s) = true.
Proof. exact positions_sound. Qed.

(* the slicing functions related to each other and to LEN (Proofs/TextAlgebra.v) *)
Theorem C15_len_of_slices : forall s n, 0 <= n ->
  (exists a, fn_LEFT s n = TOk a /\ fn_LEN a = Z.min n (fn_LEN s)) /\
  (exists b, fn_RIGHT s n = TOk b /\ fn_LEN b = Z.min n (fn_LEN s)).
Proof. intros s n H. split; [exact (len_LEFT s n H)|exact (len_RIGHT s n H)]. Qed.
Theorem C15_len_of_MID : forall s st n, 1 <= st -> 0 <= n ->
  exists a, fn_MID s st n = TOk a /\ fn_LEN a = Z.max 0 (Z.min n (fn_LEN s - (st - 1))).
Proof. exact len_MID. Qed.
Theorem C15_left_of_left : forall s n m, 0 <= n -> 0 <= m ->
  exists a, fn_LEFT s n = TOk a /\ fn_LEFT a m = fn_LEFT s (Z.min n m).
Proof. exact left_left. Qed.
Theorem C15_left_mid_right_split : forall s st n, 1 <= st -> 0 <= n -> st - 1 + n <= fn_LEN s ->
  exists a b c, fn_LEFT s (st - 1) = TOk a /\ fn_MID s st n = TOk b /\
                fn_RIGHT s (fn_LEN s - (st - 1) - n) = TOk c /\ a ++ b ++ c = s.
Proof. exact left_mid_right_split. Qed.
Theorem C15_mid_past_prefix : forall a b st n, 1 <= st -> 0 <= n -> fn_MID (a ++ b) (fn_LEN a + st) n = fn_MID b st n.
Proof. exact mid_past_prefix. Qed.
Theorem C15_slices_of_concat : forall a b, fn_LEFT (a ++ b) (fn_LEN a) = TOk a /\ fn_RIGHT (a ++ b) (fn_LEN b) = TOk b.
Proof. exact left_right_of_concat. Qed.
Theorem C15_CLEAN_distributes : forall a b, fn_CLEAN (a ++ b) = fn_CLEAN a ++ fn_CLEAN b.
Proof. exact CLEAN_app. Qed.
Theorem C15_CLEAN_never_lengthens : forall s, fn_LEN (fn_CLEAN s) <= fn_LEN s.
Proof. exact len_CLEAN_le. Qed.

(* the source terms of LEFT / RIGHT / MID (Gen/TextSlices.v, regenerated from text.py on every run) under Python's
   slice semantics ARE the model functions the theorems above speak about (Proofs/SliceProofs.v) *)
Theorem C15_source_slices_are_the_model : forall s st n,
  run_slicefn gen_LEFT s [n] = fn_LEFT s n /\ run_slicefn gen_RIGHT s [n] = fn_RIGHT s n /\
  run_slicefn gen_MID s [st; n] = fn_MID s st n.
Proof. intros s st n. exact (conj (source_LEFT_is_model s n) (conj (source_RIGHT_is_model s n) (source_MID_is_model s st n))). Qed.
Theorem C15_source_slices_understood :
  gen_LEFT_defaults = [1] /\ gen_RIGHT_defaults = [1] /\ gen_MID_defaults = [1] /\ slices_gen_ok = true.
Proof. exact source_defaults. Qed.
Theorem C15_source_left_right_split : forall s n, 0 <= n <= zlen s ->
  exists a b, run_slicefn gen_LEFT s [n] = TOk a /\ run_slicefn gen_RIGHT s [fn_LEN s - n] = TOk b /\ a ++ b = s.
Proof. intros s n H. rewrite source_LEFT_is_model, source_RIGHT_is_model. exact (left_right_split s n H). Qed.
Theorem C15_source_zero_count_is_empty : forall s, run_slicefn gen_LEFT s [0] = TOk [] /\ run_slicefn gen_RIGHT s [0] = TOk [].
Proof. intros s. rewrite source_LEFT_is_model, source_RIGHT_is_model. split; [exact (LEFT_zero s)|exact (RIGHT_zero s)]. Qed.

Example C15_examples :
  fn_RIGHT [97; 98; 99] 0 = TOk [] /\ fn_RIGHT [97; 98; 99] 2 = TOk [98; 99] /\
  fn_SUBSTITUTE [97; 98; 99; 98] [98] [] None = TOk [97; 99] /\
  fn_SUBSTITUTE [97; 98; 99; 98] [98] [120; 121] (Some 2) = TOk [97; 98; 99; 120; 121] /\
  fn_TRIM [9; 32; 97; 32; 32; 98; 32; 10; 32] = [9; 32; 97; 32; 98; 32; 10] /\
  fn_PROPER [104; 233; 108; 108; 111; 32; 119; 79; 82; 76; 68; 50; 97] = [72; 233; 108; 108; 111; 32; 87; 111; 114; 108; 100; 50; 65] /\
  fn_UPPER [223; 97] = [83; 83; 65] /\
  fn_TEXTJOIN [44] true [Some [97]; None; Some [98]] = [97; 44; 98] /\
  fn_TEXTJOIN [44] false [Some [97]; None; Some [98]] = [97; 44; 44; 98].
Proof. vm_compute. repeat split; reflexivity. Qed.

Print Assumptions C15_left_right_split.
Print Assumptions C15_source_slices_are_the_model.
Print Assumptions C15_source_left_right_split.
Print Assumptions C15_left_mid_right_split.
Print Assumptions C15_len_of_MID.
Print Assumptions C15_slices_of_concat.
Print Assumptions C15_UPPER_idempotent.
Print Assumptions C15_LOWER_idempotent.
Print Assumptions C15_PROPER_idempotent_partial.
Print Assumptions C15_PROPER_idempotent_refuted.
Print Assumptions C15_TRIM_idempotent.
Print Assumptions C15_TRIM_only_spaces.
Print Assumptions C15_CLEAN_idempotent.
Print Assumptions C15_SUBSTITUTE_absent.
Print Assumptions C15_SUBSTITUTE_every_occurrence.
Print Assumptions C15_SUBSTITUTE_kth.
