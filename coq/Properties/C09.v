(* C09 — Names resolve to what was registered; unknown names are #NAME?.
   Property theorems only; proofs are in Proofs/RefsProofs.v (callbacks, lexing of names) and Proofs/LRfull.v (the
   real LR driver on the generated tables runs every expression to its post-order evaluation xval).
   Gen/Registry.v (registry, documented names, predefined variables) and Gen/Grammar.v are regenerated on every run. *)
From HX Require Import Model.Base Model.Lexer Model.Value Model.Operators Model.Cell Model.Interp
  Proofs.LRcert Proofs.LRvalue Proofs.LRfull Proofs.RefsProofs Gen.Registry.
Open Scope Z_scope.

Theorem C09_certificate : cert_full = true.
Proof. exact cert_full_ok. Qed.

(* every well-parenthesised expression (numbers, variables, cells, ranges, calls with any arguments, operators,
   parentheses; any size and nesting): Parser.parse returns the record and emits the events of the post-order
   evaluation xval *)
Theorem C09_parse_is_postorder_evaluation : forall h s e, s <> [] -> lex s = LexOk (xtoks e) -> xwp e ->
  parse_formula h s = (record_of (fst (xval h e)), snd (xval h e)).
Proof. exact parse_formula_expr. Qed.

(* variables: the name alone lexes as one VARIABLE token and evaluates to the registered value *)
Theorem C09_name_is_one_token : forall n, good_name n -> lex n = LexOk [Tok T_VARIABLE n].
Proof. exact name_lexes_as_variable. Qed.
Theorem C09_variable_formula : forall h n, good_name n ->
  parse_formula h n = (record_of (fst (call_variable h n)), snd (call_variable h n)).
Proof. exact variable_formula. Qed.
Theorem C09_variable_set : forall h n v, lookup_variable h n = Some v -> handed_for n (h_varset h) = [] ->
  call_variable h n = (ROk v, [EvVariable n]).
Proof. exact variable_set. Qed.
Theorem C09_variable_latest_binding : forall h n v rest, h_vars h = (n, v) :: rest -> lookup_variable h n = Some v.
Proof. exact variable_latest_binding. Qed.
Theorem C09_predefined : forall h, h_vars h = [] ->
  lookup_variable h [84;82;85;69] = Some (VBool true) /\ lookup_variable h [70;65;76;83;69] = Some (VBool false) /\
  lookup_variable h [78;85;76;76] = Some VBlank.
Proof. exact variable_predefined. Qed.
Theorem C09_predefined_as_in_the_code :
  forallb (fun nv => match assoc_text (fst nv) predefined with
                     | Some v => match v, predef_value (snd nv) with
                                 | VBool a, VBool b => Bool.eqb a b | VBlank, VBlank => true | _, _ => false end
                     | None => false end) predefined_vars = true /\ length predefined_vars = length predefined.
Proof. exact predefined_as_generated. Qed.
Theorem C09_unknown_variable : forall h n, lookup_variable h n = None -> handed_for n (h_varset h) = [] ->
  call_variable h n = (RRaise ENAME, [EvVariable n]).
Proof. exact variable_unknown. Qed.

(* functions: a registered custom function takes precedence over a built-in of the same name, is called with the
   evaluated arguments in order, and its return value is the call's value *)
Theorem C09_custom_function_wins : forall h name args b, assoc_text name (h_funs h) = Some b ->
  call_function h name args =
  match b with
  | BRecord => (ROk (last_non_none (handed_for name (h_funset h)) (VList args)), [EvFunction name args])
  | BIdent => match args with a :: _ => (ROk (last_non_none (handed_for name (h_funset h)) a), [EvFunction name args]) | [] => (RExc, []) end
  | BConst v => (ROk (last_non_none (handed_for name (h_funset h)) v), [EvFunction name args])
  | BRaiseXL e => (ROk (last_non_none (handed_for name (h_funset h)) (VErr e)), [EvFunction name args])
  | BRaisePy => (RExc, [])
  end.
Proof. exact custom_function_wins. Qed.
Theorem C09_arguments_in_order_once : forall h sp name args vs evs v, xvals (xval h) args = (ROk vs, evs) ->
  fst (call_function h name vs) = ROk v -> snd (xval h (XCall sp name args)) = evs ++ [EvFunction name vs].
Proof. exact call_arguments_in_order. Qed.
(* once per call site (and one event per reference): the trace of a successful evaluation is the post-order list
   of the references of the expression *)
Theorem C09_once_per_call_site : forall h e v, fst (xval h e) = ROk v -> map ref_of (snd (xval h e)) = refs e.
Proof. exact events_postorder. Qed.
(* every documented name resolves to a built-in *)
Theorem C09_documented_names_registered : forallb (fun n => mem_text n registry_names) documented_names = true.
Proof. exact documented_registered. Qed.
Theorem C09_documented_names_resolve : forall h name args, In name documented_names -> h_registry h = registry_names ->
  assoc_text name (h_funs h) = None -> fst (call_function h name args) <> RRaise ENAME.
Proof. exact documented_resolve. Qed.
(* any other function: #NAME?; an unknown name at any position never yields a value or a blank *)
Theorem C09_unknown_function : forall h name args, assoc_text name (h_funs h) = None -> mem_text name (h_registry h) = false ->
  call_function h name args = (RRaise ENAME, []).
Proof. exact unknown_function. Qed.
(* ... where "registered" in the code means, exactly, "is a key of the registry" (generated: source shape of
   Dispatcher.get_for / get_for / is_supported, near-miss probes on the live registry) *)
Theorem C09_registry_lookup_as_modelled : registry_lookup_exact = true.
Proof. exact registry_lookup_as_modelled. Qed.
Theorem C09_unknown_call_is_name : forall h sp name args vs evs, unknown_fn h name -> xvals (xval h) args = (ROk vs, evs) ->
  xval h (XCall sp name args) = (RRaise ENAME, evs).
Proof. exact unknown_call_is_name. Qed.
Theorem C09_unknown_never_value : forall h e, has_unknown h e -> forall v, fst (xval h e) <> ROk v.
Proof. exact unknown_never_value. Qed.

(* outside good_name the statement is false of the model and of the code (known finding): x1y, _1 *)
Theorem C09_name_not_one_token_refuted :
  let h := {| h_vars := [([120;49;121], VInt 5); ([95;49], VInt 6)]; h_funs := []; h_cells := []; h_ranges := []; h_registry := [];
              h_varset := []; h_funset := []; h_oracle := fun _ _ => None |} in
  lex [120;49;121] = LexOk [Tok T_RELATIVE_CELL [120;49]; Tok T_VARIABLE [121]] /\
  fst (parse_formula h [120;49;121]) = PError EERROR /\
  lex [95;49] = LexOk [Tok T_VARIABLE [95]; Tok T_NUMBER [49]] /\ fst (parse_formula h [95;49]) = PError EERROR.
Proof. exact name_not_one_token_refuted. Qed.

(* non-vacuity: a concrete host and formula  F(x,G(2))+1  with G unknown *)
Example C09_example :
  let h := {| h_vars := [([120], VInt 5)]; h_funs := [([70], BRecord)]; h_cells := []; h_ranges := []; h_registry := registry_names;
              h_varset := []; h_funset := []; h_oracle := fun _ _ => None |} in
  fst (parse_formula h [70;40;120;44;71;40;50;41;41;43;49]) = PError ENAME /\
  fst (parse_formula h [70;40;120;44;50;41]) = PResult (VList [VInt 5; VInt 2]) /\ good_name [120] /\ good_name [114;97;116;101;95;50].
Proof. split; [vm_compute; reflexivity|]. split; [vm_compute; reflexivity|]. split; (split; [repeat constructor|split; [reflexivity|]]); [right; repeat constructor|left; split; [reflexivity|discriminate]]. Qed.

Print Assumptions C09_registry_lookup_as_modelled.
Print Assumptions C09_parse_is_postorder_evaluation.
Print Assumptions C09_name_is_one_token.
Print Assumptions C09_variable_formula.
Print Assumptions C09_custom_function_wins.
Print Assumptions C09_once_per_call_site.
Print Assumptions C09_documented_names_resolve.
Print Assumptions C09_unknown_never_value.
Print Assumptions C09_unknown_call_is_name.
