(* C18 — Lookup functions return the addressed element or an error, never another one.
   Property theorems only; proofs are in Proofs/LookupProofs.v and Proofs/MatchSorted.v. *)
From HX Require Import Model.Value Model.Comparator Model.Lookup Proofs.ValueProofs Proofs.LookupProofs Proofs.MatchSorted.
From Coq Require Import QArith Sorted.
Open Scope Z_scope.

(* CHOOSE(i, v1..vn) = vi for 1 <= i <= n, an error otherwise *)
Theorem C18_CHOOSE : forall i vs, vs <> [] -> 1 <= i <= Z.of_nat (length vs) -> i <= 254 ->
  fn_CHOOSE (VInt i :: vs) = Ret (nth (Z.to_nat (i - 1)) vs VBlank).
Proof. exact CHOOSE_spec. Qed.
Theorem C18_CHOOSE_out_of_range : forall i vs, vs <> [] -> (i < 1 \/ Z.of_nat (length vs) < i) ->
  fn_CHOOSE (VInt i :: vs) = Ret (VErr EVALUE).
Proof. exact CHOOSE_out_of_range. Qed.

(* INDEX on a one-dimensional array: by position; #REF! outside; 0 = the whole array *)
Theorem C18_INDEX_1d : forall l p, one_dim l -> p <> 0 ->
  fn_INDEX (VList l) (Some (VInt p)) None =
    if (1 <=? p) && (p <=? Z.of_nat (length l)) then ref_or (nth_error l (Z.to_nat (p - 1))) else Ret (VErr EREF).
Proof. exact INDEX_1d_position. Qed.
Theorem C18_INDEX_1d_whole : forall l, one_dim l -> fn_INDEX (VList l) (Some (VInt 0)) None = Ret (VList l).
Proof. exact INDEX_1d_whole. Qed.

(* INDEX on a two-dimensional array of any size *)
Theorem C18_INDEX_2d_inside : forall rows r c rw v, two_dim rows -> r <> 0 -> c <> 0 ->
  nth_error rows (Z.to_nat (r - 1)) = Some (VList rw) -> 1 <= r -> 1 <= c ->
  nth_error rw (Z.to_nat (c - 1)) = Some v ->
  fn_INDEX (VList rows) (Some (VInt r)) (Some (VInt c)) = Ret v.
Proof. exact INDEX_2d_inside. Qed.
Theorem C18_INDEX_2d_never_another : forall rows r c v, two_dim rows -> r <> 0 -> c <> 0 ->
  fn_INDEX (VList rows) (Some (VInt r)) (Some (VInt c)) = Ret v ->
  v = VErr EREF \/
  exists rw, 1 <= r <= Z.of_nat (length rows) /\ nth_error rows (Z.to_nat (r - 1)) = Some (VList rw) /\
             1 <= c <= Z.of_nat (length rw) /\ nth_error rw (Z.to_nat (c - 1)) = Some v.
Proof. exact INDEX_2d_never_another. Qed.
Theorem C18_INDEX_2d_outside_row : forall rows r c, two_dim rows -> r <> 0 -> c <> 0 ->
  (r < 1 \/ Z.of_nat (length rows) < r) -> fn_INDEX (VList rows) (Some (VInt r)) (Some (VInt c)) = Ret (VErr EREF).
Proof. exact INDEX_2d_outside. Qed.
Theorem C18_INDEX_2d_outside_col : forall rows r c rw, two_dim rows -> r <> 0 -> c <> 0 ->
  pick (VList rows) r = Some (VList rw) -> (c < 1 \/ Z.of_nat (length rw) < c) ->
  fn_INDEX (VList rows) (Some (VInt r)) (Some (VInt c)) = Ret (VErr EREF).
Proof. exact INDEX_2d_outside_col. Qed.
Theorem C18_INDEX_2d_whole_row : forall rows r, two_dim rows -> r <> 0 ->
  fn_INDEX (VList rows) (Some (VInt r)) None = ref_or (pick (VList rows) r) /\
  fn_INDEX (VList rows) (Some (VInt r)) (Some (VInt 0)) = ref_or (pick (VList rows) r).
Proof. exact INDEX_2d_row. Qed.
Theorem C18_INDEX_2d_whole_column : forall rows c, two_dim rows -> c <> 0 ->
  fn_INDEX (VList rows) None (Some (VInt c)) = ref_or (option_map VList (pick_column rows c)) /\
  fn_INDEX (VList rows) (Some (VInt 0)) (Some (VInt c)) = ref_or (option_map VList (pick_column rows c)).
Proof. exact INDEX_2d_column. Qed.
Theorem C18_column_is_elementwise : forall rows c col, pick_column rows c = Some col ->
  length col = length rows /\
  forall i rw, nth_error rows i = Some rw -> exists x, pick rw c = Some x /\ nth_error col i = Some x.
Proof. exact pick_column_spec. Qed.

(* MATCH(x, array, 0): 1-based position of the first item equal to x, #N/A when there is none *)
Theorem C18_MATCH0_first : forall x l p, not_text x -> truthy (VList l) = true -> fn_MATCH x (VList l) 0 = Ret (VInt p) ->
  exists pre a post, l = pre ++ a :: post /\ p = Z.of_nat (length pre) + 1 /\ py_eq a x = true /\
                     Forall (fun b => py_eq b x = false) pre.
Proof. exact MATCH0_first. Qed.
Theorem C18_MATCH0_none : forall x l, not_text x -> truthy (VList l) = true ->
  (fn_MATCH x (VList l) 0 = Ret (VErr ENA) <-> Forall (fun b => py_eq b x = false) l).
Proof. exact MATCH0_none. Qed.
(* INDEX(array, MATCH(x, array, 0)) = x whenever x occurs *)
Theorem C18_INDEX_MATCH_inverse : forall x l, not_text x -> one_dim l -> (exists a, In a l /\ py_eq a x = true) ->
  exists p a, fn_MATCH x (VList l) 0 = Ret (VInt p) /\ fn_INDEX (VList l) (Some (VInt p)) None = Ret a /\ py_eq a x = true.
Proof. exact INDEX_MATCH_inverse. Qed.

(* MATCH type 1 on an ascending numeric array: a position of the largest item <= x, else #N/A;
   type -1 on a descending one: a position of the smallest item >= x, else #N/A  (arrays of any length, duplicates allowed) *)
Theorem C18_MATCH1_ascending : forall x l, numeric x -> l <> [] -> Forall numeric l ->
  StronglySorted (fun a b => (val a <= val b)%Q) l ->
  exists res, fn_MATCH x (VList l) 1 = (match res with Some p => Ret (VInt p) | None => Ret (VErr ENA) end) /\
    match res with
    | Some p => exists a, nth_error l (Z.to_nat (p - 1)) = Some a /\ 1 <= p /\ (val a <= val x)%Q /\
                          forall b, In b l -> (val b <= val x)%Q -> (val b <= val a)%Q
    | None => forall b, In b l -> ~ (val b <= val x)%Q
    end.
Proof. intros x l Hx Hne Hn Hs. exact (MATCH_sorted 1 x l (or_introl eq_refl) Hx Hne Hn Hs). Qed.
Theorem C18_MATCHm1_descending : forall x l, numeric x -> l <> [] -> Forall numeric l ->
  StronglySorted (fun a b => (val b <= val a)%Q) l ->
  exists res, fn_MATCH x (VList l) (-1) = (match res with Some p => Ret (VInt p) | None => Ret (VErr ENA) end) /\
    match res with
    | Some p => exists a, nth_error l (Z.to_nat (p - 1)) = Some a /\ 1 <= p /\ (val x <= val a)%Q /\
                          forall b, In b l -> (val x <= val b)%Q -> (val a <= val b)%Q
    | None => forall b, In b l -> ~ (val x <= val b)%Q
    end.
Proof. intros x l Hx Hne Hn Hs. exact (MATCH_sorted (-1) x l (or_intror eq_refl) Hx Hne Hn Hs). Qed.
Theorem C18_MATCH_bad_type : forall x l ty, ty <> -1 -> ty <> 0 -> ty <> 1 -> fn_MATCH x (VList l) ty = Ret (VErr ENA).
Proof. exact MATCH_bad_type. Qed.

Example C18_examples :
  fn_INDEX (VList [VInt 1; VInt 2; VInt 3]) (Some (VInt (-1))) None = Ret (VErr EREF) /\
  fn_INDEX (VList [VInt 1; VInt 2; VInt 3]) (Some (VInt 3)) None = Ret (VInt 3) /\
  fn_INDEX (VList [VList [VInt 1; VInt 2]; VList [VInt 3; VInt 4]]) (Some (VInt 2)) (Some (VInt 1)) = Ret (VInt 3) /\
  fn_INDEX (VList [VList [VInt 1; VInt 2]; VList [VInt 3; VInt 4]]) (Some (VInt (-1))) (Some (VInt 1)) = Ret (VErr EREF) /\
  fn_INDEX (VList [VList [VInt 1; VInt 2]; VList [VInt 3; VInt 4]]) (Some (VInt 0)) (Some (VInt 2)) = Ret (VList [VInt 2; VInt 4]) /\
  fn_MATCH (VInt 25) (VList [VInt 10; VInt 20; VInt 20; VInt 30]) 1 = Ret (VInt 2) /\
  fn_MATCH (VInt 25) (VList [VInt 30; VInt 20; VInt 10]) (-1) = Ret (VInt 1) /\
  fn_MATCH (VInt 5) (VList [VInt 10; VInt 20]) 1 = Ret (VErr ENA) /\
  fn_MATCH (VText [97; 42]) (VList [VText [120]; VText [65; 66; 67]]) 0 = Ret (VInt 2) /\
  one_dim [VInt 1; VInt 2] /\ two_dim [VList [VInt 1]].
Proof. vm_compute. repeat split; try reflexivity; try discriminate; repeat constructor; eauto. Qed.

Print Assumptions C18_CHOOSE.
Print Assumptions C18_INDEX_1d.
Print Assumptions C18_INDEX_2d_inside.
Print Assumptions C18_INDEX_2d_never_another.
Print Assumptions C18_INDEX_2d_whole_column.
Print Assumptions C18_MATCH0_first.
Print Assumptions C18_INDEX_MATCH_inverse.
Print Assumptions C18_MATCH1_ascending.
Print Assumptions C18_MATCHm1_descending.
