(* C04, value level: the REAL driver of Model/Interp.v (lr_step with the grammar actions) evaluates the token
   sequence of every well-parenthesised tree to the value of the tree (post-order evaluation), and parentheses
   do not change it.  Same certificate facts as Proofs/LRcert.v. *)
From HX Require Import Model.Base Model.Lexer Model.Value Model.Operators Model.Interp Proofs.LRcert.
From Coq Require Import Lia ZifyBool.
Open Scope Z_scope.

(* the value of a tree: what the grammar actions compute, bottom-up, left to right *)
Definition bin_val (b : binop) (l r : value) : outcome :=
  match b with
  | Plus => eval_arith 60 0 l r | Minus => eval_arith 60 1 l r | Mult => eval_arith 60 2 l r | Div => eval_arith 60 3 l r
  | Amp => eval_amp l r
  | Lt => eval_cmp 0 l r | Gt => eval_cmp 1 l r | Eq => eval_cmp 2 l r | Le => eval_cmp 3 l r | Ge => eval_cmp 4 l r
  | Ne => eval_cmp 5 l r
  end.
Definition bin_res (b : binop) (l r : value) : res value :=
  match b with
  | Amp => amp_res l r
  | Lt => cmp_res 0 l r | Gt => cmp_res 1 l r | Eq => cmp_res 2 l r | Le => cmp_res 3 l r | Ge => cmp_res 4 l r | Ne => cmp_res 5 l r
  | _ => of_outcome (bin_val b l r)
  end.
Fixpoint tree_val (t : tree) : res value :=
  match t with
  | Atom d => ROk (VInt (digits_z d))
  | Par t => tree_val t
  | Neg t => rbind (tree_val t) (fun v => of_outcome (eval_neg v))
  | Bin b l r => rbind (tree_val l) (fun lv => rbind (tree_val r) (fun rv => bin_res b lv rv))
  end.
(* parentheses never change the value *)
Inductive utree := UAtom (d : list Z) | UNeg (u : utree) | UBin (b : binop) (l r : utree).
Fixpoint strip (t : tree) : utree :=
  match t with Atom d => UAtom d | Par t => strip t | Neg t => UNeg (strip t) | Bin b l r => UBin b (strip l) (strip r) end.
Fixpoint utree_val (u : utree) : res value :=
  match u with
  | UAtom d => ROk (VInt (digits_z d))
  | UNeg t => rbind (utree_val t) (fun v => of_outcome (eval_neg v))
  | UBin b l r => rbind (utree_val l) (fun lv => rbind (utree_val r) (fun rv => bin_res b lv rv))
  end.
Theorem parens_irrelevant t : tree_val t = utree_val (strip t).
Proof. induction t as [d|t IH|b l IHl r IHr|t IH]; cbn [tree_val strip utree_val]; rewrite ?IH, ?IHl, ?IHr; reflexivity. Qed.

(* minimal and full parenthesisation of an abstract tree *)
Definition wrap_if (c : bool) (t : tree) : tree := if c then Par t else t.
Fixpoint render_min (u : utree) : tree :=
  match u with
  | UAtom d => Atom d
  | UNeg x => let t := render_min x in Neg (wrap_if (match topop t with Some _ => true | None => false end) t)
  | UBin b l r =>
      let tl := render_min l in let tr := render_min r in
      Bin b (wrap_if (match topop tl with Some bl => negb (lvl b <=? lvl bl)%nat | None => false end) tl)
            (wrap_if (match topop tr with Some br => negb (lvl b <? lvl br)%nat | None => false end) tr)
  end.
Fixpoint render_full (u : utree) : tree :=
  match u with
  | UAtom d => Atom d
  | UNeg x => Neg (Par (render_full x))
  | UBin b l r => Bin b (Par (render_full l)) (Par (render_full r))
  end.
Lemma strip_wrap c t : strip (wrap_if c t) = strip t.
Proof. destruct c; reflexivity. Qed.
Theorem strip_render u : strip (render_min u) = u /\ strip (render_full u) = u.
Proof.
  induction u as [d|x [IH1 IH2]|b l [IHl1 IHl2] r [IHr1 IHr2]]; cbn [render_min render_full strip]; rewrite ?strip_wrap;
    split; congruence.
Qed.
Lemma wp_wrap c t : wp t -> wp (wrap_if c t).
Proof. destruct c; auto. Qed.
Lemma topop_wrap_true t : topop (wrap_if true t) = None.
Proof. reflexivity. Qed.
Theorem wp_render_min u : wp (render_min u).
Proof.
  induction u as [d|x IH|b l IHl r IHr]; cbn [render_min wp]; [exact I| |].
  - split; [apply wp_wrap; exact IH|]. destruct (topop (render_min x)) eqn:E; [reflexivity|exact E].
  - repeat split; try (apply wp_wrap; assumption).
    + destruct (topop (render_min l)) as [bl|] eqn:E; [|cbn [wrap_if]; rewrite E; exact I].
      destruct (lvl b <=? lvl bl)%nat eqn:L; cbn [negb wrap_if]; [rewrite E; apply Nat.leb_le; exact L|exact I].
    + destruct (topop (render_min r)) as [br|] eqn:E; [|cbn [wrap_if]; rewrite E; exact I].
      destruct (lvl b <? lvl br)%nat eqn:L; cbn [negb wrap_if]; [rewrite E; apply Nat.ltb_lt; exact L|exact I].
Qed.
Theorem wp_render_full u : wp (render_full u).
Proof. induction u as [d|x IH|b l IHl r IHr]; cbn [render_full wp topop]; auto. Qed.

(* ---------- the real driver on the real tables ---------- *)
Inductive lr_steps (h : host) : nat -> pstack * list token -> pstack * list token -> Prop :=
  | lrs_refl c : lr_steps h 0 c c
  | lrs_step n st inp st' inp' c'' : lr_step h st inp false = (LRMore st' inp', []) -> lr_steps h n (st', inp') c'' ->
                                     lr_steps h (S n) (st, inp) c''.
Lemma lrs_trans h n m a b c : lr_steps h n a b -> lr_steps h m b c -> lr_steps h (n + m) a c.
Proof. induction 1; intros; [assumption|]. cbn [Nat.add]. econstructor; eauto. Qed.
Lemma lrs_one h st inp st' inp' : lr_step h st inp false = (LRMore st' inp', []) -> lr_steps h 1 (st, inp) (st', inp').
Proof. intros; econstructor; eauto; constructor. Qed.
Lemma lrs_eq h n m a b : n = m -> lr_steps h n a b -> lr_steps h m a b.
Proof. intros ->. auto. Qed.
(* the number of driver steps spent on a tree: one shift per token, one reduction per node *)
Fixpoint nsteps (t : tree) : nat :=
  match t with
  | Atom _ => 2
  | Neg t => S (nsteps t + 1)
  | Bin _ l r => nsteps l + S (nsteps r + 1)
  | Par t => S (nsteps t + 2)
  end.

(* bridging: the classified action against the raw table entry *)
Lemma act_shift s k q : act_of s k = Some (Shift q) -> action_of s k = Some q /\ (0 <? q) = true.
Proof.
  unfold act_of. destruct (action_of s k) as [a|]; [|discriminate]. destruct (0 <? a) eqn:P.
  - intros H. inversion H; subst. auto.
  - destruct (a <? 0); discriminate.
Qed.
Lemma act_reduce s k p : act_of s k = Some (Reduce p) -> exists a, action_of s k = Some a /\ (0 <? a) = false /\ (a <? 0) = true /\ - a = p.
Proof.
  unfold act_of. destruct (action_of s k) as [a|]; [|discriminate]. destruct (0 <? a) eqn:P; [discriminate|].
  destruct (a <? 0) eqn:N; [|discriminate]. intros H. inversion H; subst. eauto.
Qed.
(* the productions behind the four shapes, with their grammar actions, as generated *)
Lemma prod_facts :
  prod_of iA = Some (E, 1, 5, [T_NUMBER]) /\ prod_of iNeg = Some (E, 2, 4, [T_MINUS; - E]) /\
  prod_of iPar = Some (E, 3, 15, [T_LPAREN; - E; T_RPAREN]) /\
  forall b, prod_of (iBin b) = Some (E, 3, (match b with Plus | Minus | Mult | Div | Amp => 2 | _ => 3 end), [- E; op_term b; - E]).
Proof.
  split; [vm_compute; reflexivity|]. split; [vm_compute; reflexivity|]. split; [vm_compute; reflexivity|].
  intros b. destruct b; vm_compute; reflexivity.
Qed.

Definition ptop (st : pstack) : Z := top_state st.
Opaque eval_arith eval_amp eval_cmp eval_neg.
Lemma bin_action h b lv rv :
  sem_action h (match b with Plus | Minus | Mult | Div | Amp => 2 | _ => 3 end) [- E; op_term b; - E]
    [SVval lv; SVtok (op_lexeme b); SVval rv] =
  (rbind (bin_res b lv rv) (fun v => ROk (SVval v)), []).
Proof.
  destruct b; unfold sem_action, tok_is, bin_res, bin_val; cbn [op_lexeme list_eqb Z.eqb Pos.eqb andb no_ev]; reflexivity.
Qed.

Lemma lr_shift_step h st t rest a : action_of (top_state st) (tk t) = Some a -> (0 <? a) = true ->
  lr_step h st (t :: rest) false = (LRMore ((a, SVtok (lexeme t)) :: st) rest, []).
Proof. intros A P. unfold lr_step. rewrite A, P. reflexivity. Qed.
Lemma lr_reduce_step h st inp a lhs len fn rhs vals st' v q :
  action_of (top_state st) (la inp) = Some a -> (0 <? a) = false -> (a <? 0) = true ->
  prod_of (- a) = Some (lhs, len, fn, rhs) -> pop_n (Z.to_nat len) st [] = Some (vals, st') ->
  sem_action h fn rhs vals = (ROk v, []) -> goto_of (top_state st') lhs = Some q ->
  lr_step h st inp false = (LRMore ((q, v) :: st') inp, []).
Proof.
  intros A P N PR PO SE GO. unfold lr_step.
  assert (match inp with t :: _ => tk t | [] => 0 end = la inp) as -> by reflexivity.
  destruct inp as [|t0 r']; rewrite A, P, N, PR, PO, SE, GO; reflexivity.
Qed.
Lemma pop1 s v st : pop_n (Z.to_nat 1) ((s, v) :: st) [] = Some ([v], st). Proof. reflexivity. Qed.
Lemma pop2 s1 v1 s2 v2 st : pop_n (Z.to_nat 2) ((s1, v1) :: (s2, v2) :: st) [] = Some ([v2; v1], st). Proof. reflexivity. Qed.
Lemma pop3 s1 v1 s2 v2 s3 v3 st : pop_n (Z.to_nat 3) ((s1, v1) :: (s2, v2) :: (s3, v3) :: st) [] = Some ([v3; v2; v1], st).
Proof. reflexivity. Qed.

Lemma rbind_ok {A B} (r : res A) (k : A -> res B) (v : B) : rbind r k = ROk v -> exists a, r = ROk a /\ k a = ROk v.
Proof. destruct r; cbn; try discriminate. eauto. Qed.
Lemma of_outcome_ok o v : of_outcome o = ROk v -> o = Ret v.
Proof. destruct o; cbn; try discriminate. intros H; inversion H; reflexivity. Qed.

Theorem lr_evaluates_tree (h : host) : forall t, wp t -> forall v, tree_val t = ROk v ->
  forall (st : pstack) (r : list token) q,
    ES (ptop st) -> goto_E (ptop st) = Some q -> enter_ok q t -> follow_ok t (la r) ->
    lr_steps h (nsteps t) (st, toks t ++ r) ((q, SVval v) :: st, r).
Proof.
  destruct prod_facts as (PA & PN & PP & PB).
  destruct H_paren as (HESL & HESU & HES0 & HctxL & Hctx0 & Hrp & HgoL & HgoU & Hgo0 & HctxU).
  induction t as [a | t IH | b l IHl r0 IHr | t IH]; intros Hwp v Hv st r q HES Hgo Hent Hfol.
  - (* Atom *)
    cbn [tree_val] in Hv. inversion Hv; subst. cbn [toks app].
    destruct (act_shift _ _ _ (H_atom_shift _ HES)) as [A1 A2].
    destruct (act_reduce _ _ _ (H_atom_red _ (follow_ok_follow _ _ Hfol))) as (a' & B1 & B2 & B3 & B4).
    cbn [nsteps]. eapply lrs_step; [apply lr_shift_step; [exact A1|exact A2]|].
    apply lrs_one. eapply lr_reduce_step; [exact B1|exact B2|exact B3|rewrite B4; exact PA|apply pop1|reflexivity|exact Hgo].
  - (* Neg *)
    destruct Hwp as [Hwp Htop]. cbn [tree_val] in Hv. apply rbind_ok in Hv. destruct Hv as (w & Ew & Hv).
    cbn [toks app].
    destruct (act_shift _ _ _ (H_neg_shift _ HES)) as [A1 A2].
    destruct (act_reduce _ _ _ (H_neg_red _ (follow_ok_follow _ _ Hfol))) as (a' & B1 & B2 & B3 & B4).
    cbn [nsteps]. eapply lrs_step; [apply lr_shift_step; [exact A1|exact A2]|].
    eapply lrs_trans.
    { apply (IH Hwp w Ew ((sU, SVtok [45]) :: st) r qU); cbn [ptop top_state]; auto.
      - unfold enter_ok. rewrite Htop. exact I.
      - destruct Hfol as [H|[a [H _]]]; [left; exact H|right; exists a; split; [exact H|rewrite Htop; exact I]]. }
    apply lrs_one. eapply lr_reduce_step; [exact B1|exact B2|exact B3|rewrite B4; exact PN|apply pop2| |exact Hgo].
    unfold sem_action. apply of_outcome_ok in Hv. rewrite Hv. reflexivity.
  - (* Bin *)
    destruct Hwp as (Hwl & Hwr & Hl & Hr). cbn [tree_val] in Hv.
    apply rbind_ok in Hv. destruct Hv as (lv & El & Hv). apply rbind_ok in Hv. destruct Hv as (rv & Er & Hv).
    cbn [toks]. rewrite <- app_assoc. cbn [app].
    unfold enter_ok in Hent. cbn [topop] in Hent. cbn [nsteps].
    eapply lrs_trans.
    { apply (IHl Hwl lv El st (Tok (op_term b) (op_lexeme b) :: toks r0 ++ r) q HES Hgo).
      - unfold enter_ok. revert Hl. destruct (topop l) as [bl|]; [|intros; exact I].
        revert Hent. unfold enters. destruct (ctx q); intros; [lia|exact I].
      - right. exists b. split; [reflexivity|]. revert Hl. destruct (topop l); intros Hl; [exact Hl|exact I]. }
    destruct (act_shift _ _ _ (H_op_shift _ _ _ HES Hgo Hent)) as [A1 A2].
    eapply lrs_step; [apply lr_shift_step; [exact A1|exact A2]|]. cbn [lexeme].
    destruct (H_opst b) as (HESo & Hgoo & Hctx & _).
    eapply lrs_trans.
    { apply (IHr Hwr rv Er ((opst b, SVtok (op_lexeme b)) :: (q, SVval lv) :: st) r (ae b)); cbn [ptop top_state]; auto.
      - unfold enter_ok. revert Hr. destruct (topop r0) as [br|]; intros Hr; [|exact I]. unfold enters. rewrite Hctx. exact Hr.
      - destruct Hfol as [H|[a [H Ha]]]; [left; exact H|]. right. exists a. split; [exact H|].
        cbn [topop] in Ha. revert Hr. destruct (topop r0); intros Hr; [lia|exact I]. }
    assert (act_of (ae b) (la r) = Some (Reduce (iBin b))) as Hact.
    { destruct Hfol as [H|[a [H Ha]]]; [apply H_bin_red_term; exact H|]. rewrite H. apply H_bin_red_op. exact Ha. }
    destruct (act_reduce _ _ _ Hact) as (a' & B1 & B2 & B3 & B4).
    apply lrs_one. eapply lr_reduce_step; [exact B1|exact B2|exact B3|rewrite B4; apply PB|apply pop3| |exact Hgo].
    rewrite bin_action, Hv. reflexivity.
  - (* Par *)
    cbn [tree_val] in Hv. cbn [toks app]. rewrite <- app_assoc. cbn [app].
    destruct (act_shift _ _ _ (H_lp_shift _ HES)) as [A1 A2].
    cbn [nsteps]. eapply lrs_step; [apply lr_shift_step; [exact A1|exact A2]|]. cbn [lexeme].
    eapply lrs_trans.
    { apply (IH Hwp v Hv ((sL, SVtok [40]) :: st) (Tok T_RPAREN [41] :: r) qL); cbn [ptop top_state]; auto.
      - unfold enter_ok, enters. rewrite HctxL. destruct (topop t); exact I.
      - left. unfold term, terminators. cbn [la tk]. left. reflexivity. }
    destruct (act_shift _ _ _ Hrp) as [C1 C2].
    eapply (lrs_step _ 1); [apply lr_shift_step; [exact C1|exact C2]|]. cbn [lexeme].
    destruct (act_reduce _ _ _ (H_par_red _ (follow_ok_follow _ _ Hfol))) as (a' & B1 & B2 & B3 & B4).
    apply lrs_one. eapply lr_reduce_step; [exact B1|exact B2|exact B3|rewrite B4; exact PP|apply pop3|reflexivity|exact Hgo].
Qed.

(* ---------- whole formulas: from the start state to acceptance ---------- *)
Lemma lr_run_steps h : forall n c c', lr_steps h n c c' ->
  forall f tr, lr_run h (n + f) (fst c) (snd c) false tr = lr_run h f (fst c') (snd c') false tr.
Proof.
  induction 1 as [c|n st inp st' inp' c'' Hs Hr IH]; intros f tr; [reflexivity|].
  cbn [Nat.add lr_run fst snd]. rewrite Hs. rewrite app_nil_r. apply IH.
Qed.
Definition qS : Z := match goto_of 0 N_expressions with Some q => q | None => -1 end.
Lemma accept_facts :
  action_of q0 0 = Some (-1) /\ prod_of 1 = Some (N_expressions, 1, 1, [- E]) /\ goto_of 0 N_expressions = Some qS /\
  action_of qS 0 = Some 0.
Proof. split; [vm_compute; reflexivity|]. split; [vm_compute; reflexivity|]. split; vm_compute; reflexivity. Qed.
Lemma nsteps_bound t : (nsteps t <= 2 * length (toks t))%nat.
Proof.
  induction t as [d|t IH|b l IHl r IHr|t IH]; cbn [nsteps toks length]; rewrite ?app_length; cbn [length]; lia.
Qed.

Theorem formula_value h t v : wp t -> tree_val t = ROk v ->
  forall fuel, (nsteps t + 2 <= fuel)%nat -> lr_run h fuel [] (toks t) false [] = (ROk v, []).
Proof.
  intros Hw Hv fuel Hf. destruct accept_facts as (A1 & A2 & A3 & A4).
  destruct H_paren as (_ & _ & HES0 & _ & Hctx0 & _ & _ & _ & Hgo0 & _).
  pose proof (lr_evaluates_tree h t Hw v Hv [] [] q0) as X. rewrite app_nil_r in X.
  assert (lr_steps h (nsteps t) ([], toks t) ([(q0, SVval v)], [])) as S.
  { apply X.
    - exact HES0.
    - exact Hgo0.
    - unfold enter_ok, enters. rewrite Hctx0. destruct (topop t); exact I.
    - left. unfold term, terminators. cbn. tauto. }
  replace fuel with (nsteps t + (2 + (fuel - nsteps t - 2)))%nat by lia.
  rewrite (lr_run_steps h _ _ _ S). cbn [fst snd Nat.add lr_run].
  (* reduce "expressions -> expression" on $end, then accept *)
  assert (lr_step h [(q0, SVval v)] [] false = (LRMore [(qS, SVval v)] [], [])) as R1.
  { eapply (lr_reduce_step h [(q0, SVval v)] [] (-1)); [exact A1|reflexivity|reflexivity|exact A2|apply pop1|reflexivity|exact A3]. }
  rewrite R1. cbn [app].
  assert (lr_step h [(qS, SVval v)] [] false = (LRDone (ROk v), [])) as R2.
  { unfold lr_step. cbn [top_state]. rewrite A4. reflexivity. }
  rewrite R2. reflexivity.
Qed.

(* Parser.parse on a text whose tokens are those of a well-parenthesised tree *)
Theorem parse_formula_value h s t v : s <> [] -> lex s = LexOk (toks t) -> wp t -> tree_val t = ROk v ->
  parse_formula h s = (match v with VErr e => PError e | _ => PResult v end, []).
Proof.
  intros Hs Hl Hw Hv. unfold parse_formula. destruct s as [|c s']; [congruence|]. rewrite Hl.
  rewrite (formula_value h t v Hw Hv) by (pose proof (nsteps_bound t); lia). reflexivity.
Qed.

(* minimal and full renderings of the same tree evaluate identically, and equal the value of the tree *)
Theorem renderings_agree u : tree_val (render_min u) = utree_val u /\ tree_val (render_full u) = utree_val u.
Proof. destruct (strip_render u) as [E1 E2]. rewrite !parens_irrelevant, E1, E2. auto. Qed.

(* exact arithmetic of the tree on integer leaves with + - * : the integer value *)
Fixpoint int_tree (u : utree) : option Z :=
  match u with
  | UAtom d => Some (digits_z d)
  | UNeg x => option_map Z.opp (int_tree x)
  | UBin Plus l r => match int_tree l, int_tree r with Some a, Some b => Some (a + b) | _, _ => None end
  | UBin Minus l r => match int_tree l, int_tree r with Some a, Some b => Some (a - b) | _, _ => None end
  | UBin Mult l r => match int_tree l, int_tree r with Some a, Some b => Some (a * b) | _, _ => None end
  | _ => None
  end.
Transparent eval_arith eval_neg.
Theorem int_tree_exact u z : int_tree u = Some z -> utree_val u = ROk (VInt z).
Proof.
  revert z. induction u as [d|x IH|b l IHl r IHr]; intros z H; cbn [int_tree utree_val] in *.
  - inversion H. reflexivity.
  - destruct (int_tree x) as [a|]; [|discriminate]. inversion H; subst. rewrite (IH a eq_refl). reflexivity.
  - destruct b; try discriminate; destruct (int_tree l) as [a|]; try discriminate; destruct (int_tree r) as [c|]; try discriminate;
      inversion H; subst; rewrite (IHl a eq_refl), (IHr c eq_refl); reflexivity.
Qed.
