(* C04: the LALR tables ply actually uses (Gen/Grammar.v), driven by the LR driver, parse every
   well-parenthesised expression tree to itself - at any depth.  The proof is a certificate argument:
   a finite set of facts about the generated tables (uniform shifts from expression-start states,
   "shift iff the context level is lower, else reduce" in operator contexts, reductions on every
   terminator) is checked by computation; the induction over trees uses only those facts. *)
From HX Require Import Model.Base Model.Lexer Model.Interp.
From Coq Require Import Lia ZifyBool.
Open Scope Z_scope.

Inductive binop := Plus | Minus | Mult | Div | Amp | Gt | Lt | Ge | Le | Eq | Ne.
Definition all_binops : list binop := [Plus; Minus; Mult; Div; Amp; Gt; Lt; Ge; Le; Eq; Ne].
Definition op_term (b : binop) : Z :=
  match b with
  | Plus => T_PLUS | Minus => T_MINUS | Mult => T_MULT | Div => T_DIV | Amp => T_AMP | Gt => T_GREATER
  | Lt => T_LESS | Ge => T_GREATEREQ | Le => T_LESSEQ | Eq => T_EQUAL | Ne => T_NOTEQUAL
  end.
Definition op_lexeme (b : binop) : list Z :=
  match b with
  | Plus => [43] | Minus => [45] | Mult => [42] | Div => [47] | Amp => [38] | Gt => [62]
  | Lt => [60] | Ge => [62; 61] | Le => [60; 61] | Eq => [61] | Ne => [60; 62]
  end.

Inductive tree := Atom (digits : list Z) | Neg (t : tree) | Bin (b : binop) (l r : tree) | Par (t : tree).
Fixpoint toks (t : tree) : list token :=
  match t with
  | Atom d => [Tok T_NUMBER d]
  | Neg t => Tok T_MINUS [45] :: toks t
  | Bin b l r => toks l ++ Tok (op_term b) (op_lexeme b) :: toks r
  | Par t => Tok T_LPAREN [40] :: toks t ++ [Tok T_RPAREN [41]]
  end.
Definition la (inp : list token) : Z := match inp with [] => 0 | t :: _ => tk t end.

(* ---------- the driver with tree-building actions (same table lookups as Model/Interp.v lr_step) ---------- *)
Inductive act := Shift (s : Z) | Reduce (p : Z) | Accept.
Definition act_of (state term : Z) : option act :=
  match action_of state term with
  | Some a => Some (if 0 <? a then Shift a else if a <? 0 then Reduce (- a) else Accept)
  | None => None
  end.
Definition E : Z := N_expression.
Definition goto_E (s : Z) : option Z := goto_of s E.

Inductive sem := STok (t : token) | STree (t : tree).
Definition stack := list (Z * sem).
Definition top (st : stack) : Z := match st with [] => 0 | (s, _) :: _ => s end.

Inductive shape := PAtom | PNeg | PBin (b : binop) | PPar.
Definition binop_of_term (k : Z) : option binop := find (fun b => op_term b =? k) all_binops.
(* the shape of a production, read off the generated production table *)
Definition shape_of (p : Z) : option shape :=
  match prod_of p with
  | Some (lhs, _, _, rhs) =>
      if lhs =? E then
        match rhs with
        | [a] => if a =? T_NUMBER then Some PAtom else None
        | [a; b] => if (a =? T_MINUS) && (b =? - E) then Some PNeg else None
        | [a; o; b] =>
            if (a =? - E) && (b =? - E) then option_map PBin (binop_of_term o)
            else if (a =? T_LPAREN) && (o =? - E) && (b =? T_RPAREN) then Some PPar else None
        | _ => None
        end
      else None
  | None => None
  end.
Definition reduce (p : Z) (st : stack) : option (stack * tree) :=
  match shape_of p, st with
  | Some PAtom, (_, STok t) :: st' => Some (st', Atom (lexeme t))
  | Some PNeg, (_, STree t) :: (_, STok _) :: st' => Some (st', Neg t)
  | Some (PBin b), (_, STree r) :: (_, STok _) :: (_, STree l) :: st' => Some (st', Bin b l r)
  | Some PPar, (_, STok _) :: (_, STree t) :: (_, STok _) :: st' => Some (st', Par t)
  | _, _ => None
  end.
Definition step (cfg : stack * list token) : option (stack * list token) :=
  let '(st, inp) := cfg in
  match act_of (top st) (la inp) with
  | Some (Shift s') => match inp with t :: inp' => Some ((s', STok t) :: st, inp') | [] => None end
  | Some (Reduce p) =>
      match reduce p st with
      | Some (st', tr) => match goto_E (top st') with Some q => Some ((q, STree tr) :: st', inp) | None => None end
      | None => None
      end
  | _ => None
  end.
Inductive steps : stack * list token -> stack * list token -> Prop :=
  | steps_refl c : steps c c
  | steps_step c c' c'' : step c = Some c' -> steps c' c'' -> steps c c''.
Lemma steps_trans a b c : steps a b -> steps b c -> steps a c.
Proof. induction 1; intros; [assumption|]. econstructor; eauto. Qed.
Lemma steps_one a b : step a = Some b -> steps a b.
Proof. intros; econstructor; eauto; constructor. Qed.

(* ---------- quantities read off the generated tables ---------- *)
Definition shift_target (s k : Z) : Z := match act_of s k with Some (Shift q) => q | _ => -1 end.
Definition reduce_target (s k : Z) : Z := match act_of s k with Some (Reduce p) => p | _ => -1 end.
Definition goto_target (s : Z) : Z := match goto_E s with Some q => q | None => -1 end.
Definition es_list : list Z := map fst (filter (fun row => match zassoc E (snd row) with Some _ => true | None => false end) goto_rows).
Notation ES s := (In s es_list).
Definition sA : Z := shift_target 0 T_NUMBER.
Definition sL : Z := shift_target 0 T_LPAREN.
Definition sU : Z := shift_target 0 T_MINUS.
Definition qL : Z := goto_target sL.
Definition sR : Z := shift_target qL T_RPAREN.
Definition qU : Z := goto_target sU.
Definition q0 : Z := goto_target 0.
Definition opst (b : binop) : Z := shift_target q0 (op_term b).
Definition ae (b : binop) : Z := goto_target (opst b).
Definition iA : Z := reduce_target sA 0.
Definition iPar : Z := reduce_target sR 0.
Definition iNeg : Z := reduce_target qU 0.
Definition iBin (b : binop) : Z := reduce_target (ae b) 0.
(* precedence levels from the generated declaration *)
Definition lvl (b : binop) : nat :=
  match find (fun r => fst (fst r) =? op_term b) prec_rows with Some (_, l, _) => Z.to_nat l | None => O end.
(* closed contexts: after "E b E" (level of b), after "- E" (above every operator) *)
Definition ctx (q : Z) : option nat :=
  match find (fun b => ae b =? q) all_binops with
  | Some b => Some (lvl b)
  | None => if q =? qU then Some (Z.to_nat uminus_level) else None
  end.
Definition terminators : list Z := [T_RPAREN; 0; T_COMMA; T_SEMICOLON; T_BACKSLASH; T_RBRACKET].
Definition term (k : Z) : Prop := In k terminators.
Definition follow (k : Z) : Prop := term k \/ exists a, k = op_term a.
Definition follow_list : list Z := terminators ++ map op_term all_binops.
Lemma follow_in k : follow k -> In k follow_list.
Proof. intros [H|[a ->]]; unfold follow_list; apply in_or_app; [left; exact H|right; apply in_map; destruct a; cbn; tauto]. Qed.
Definition enters (q : Z) (b : binop) : Prop := match ctx q with None => True | Some c => (c < lvl b)%nat end.
Definition entersb (q : Z) (b : binop) : bool := match ctx q with None => true | Some c => (c <? lvl b)%nat end.

(* ---------- the certificate: finite facts about the generated tables, by computation ---------- *)
Definition act_eqb (a b : option act) : bool :=
  match a, b with
  | Some (Shift x), Some (Shift y) | Some (Reduce x), Some (Reduce y) => x =? y
  | Some Accept, Some Accept | None, None => true
  | _, _ => false
  end.
Lemma act_eqb_eq a b : act_eqb a b = true -> a = b.
Proof. destruct a as [[x|x|]|], b as [[y|y|]|]; cbn; try discriminate; try reflexivity; intros H; f_equal; f_equal; lia. Qed.

Definition c_goto : bool := forallb (fun s => match goto_E s with Some _ => true | None => false end) es_list.
Definition c_atom_shift : bool := forallb (fun s => act_eqb (act_of s T_NUMBER) (Some (Shift sA))) es_list.
Definition c_lp_shift : bool := forallb (fun s => act_eqb (act_of s T_LPAREN) (Some (Shift sL))) es_list.
Definition c_neg_shift : bool := forallb (fun s => act_eqb (act_of s T_MINUS) (Some (Shift sU))) es_list.
Definition c_atom_red : bool := forallb (fun k => act_eqb (act_of sA k) (Some (Reduce iA))) follow_list.
Definition c_par_red : bool := forallb (fun k => act_eqb (act_of sR k) (Some (Reduce iPar))) follow_list.
Definition c_neg_red : bool := forallb (fun k => act_eqb (act_of qU k) (Some (Reduce iNeg))) follow_list.
Definition c_shapes : bool :=
  match shape_of iA, shape_of iPar, shape_of iNeg with Some PAtom, Some PPar, Some PNeg => true | _, _, _ => false end.
Definition c_paren : bool :=
  existsb (Z.eqb sL) es_list && existsb (Z.eqb sU) es_list && existsb (Z.eqb 0) es_list &&
  match ctx qL with None => true | Some _ => false end && match ctx q0 with None => true | Some _ => false end &&
  act_eqb (act_of qL T_RPAREN) (Some (Shift sR)) &&
  act_eqb (Some (Shift qL)) (option_map Shift (goto_E sL)) && act_eqb (Some (Shift qU)) (option_map Shift (goto_E sU)) &&
  act_eqb (Some (Shift q0)) (option_map Shift (goto_E 0)) &&
  match ctx qU with Some c => (c =? Z.to_nat uminus_level)%nat | None => false end.
Definition c_op_shift : bool :=
  forallb (fun s => forallb (fun b => negb (entersb (goto_target s) b) ||
                                       act_eqb (act_of (goto_target s) (op_term b)) (Some (Shift (opst b)))) all_binops) es_list.
Definition c_opst : bool :=
  forallb (fun b => existsb (Z.eqb (opst b)) es_list &&
                    act_eqb (Some (Shift (ae b))) (option_map Shift (goto_E (opst b))) &&
                    match ctx (ae b) with Some c => (c =? lvl b)%nat | None => false end &&
                    match shape_of (iBin b) with Some (PBin b') => op_term b' =? op_term b | _ => false end) all_binops.
Definition c_bin_red : bool :=
  forallb (fun b => forallb (fun a => negb (lvl a <=? lvl b)%nat ||
                                       act_eqb (act_of (ae b) (op_term a)) (Some (Reduce (iBin b)))) all_binops &&
                    forallb (fun k => act_eqb (act_of (ae b) k) (Some (Reduce (iBin b)))) terminators) all_binops.
(* unary minus binds tighter than every binary operator; the levels of the binary operators are the declared ones *)
Definition c_uminus_top : bool := forallb (fun b => (lvl b <? Z.to_nat uminus_level)%nat && (0 <? lvl b)%nat) all_binops.

Definition cert : bool :=
  grammar_gen_ok && c_goto && c_atom_shift && c_lp_shift && c_neg_shift && c_atom_red && c_par_red && c_neg_red &&
  c_shapes && c_paren && c_op_shift && c_opst && c_bin_red && c_uminus_top.
Theorem cert_ok : cert = true.
Proof. vm_compute. reflexivity. Qed.

Lemma k_goto : c_goto = true. Proof. vm_compute. reflexivity. Qed.
Lemma k_atom_shift : c_atom_shift = true. Proof. vm_compute. reflexivity. Qed.
Lemma k_lp_shift : c_lp_shift = true. Proof. vm_compute. reflexivity. Qed.
Lemma k_neg_shift : c_neg_shift = true. Proof. vm_compute. reflexivity. Qed.
Lemma k_atom_red : c_atom_red = true. Proof. vm_compute. reflexivity. Qed.
Lemma k_par_red : c_par_red = true. Proof. vm_compute. reflexivity. Qed.
Lemma k_neg_red : c_neg_red = true. Proof. vm_compute. reflexivity. Qed.
Lemma k_shapes : c_shapes = true. Proof. vm_compute. reflexivity. Qed.
Lemma k_paren : c_paren = true. Proof. vm_compute. reflexivity. Qed.
Lemma k_op_shift : c_op_shift = true. Proof. vm_compute. reflexivity. Qed.
Lemma k_opst : c_opst = true. Proof. vm_compute. reflexivity. Qed.
Lemma k_bin_red : c_bin_red = true. Proof. vm_compute. reflexivity. Qed.

Lemma binop_in b : In b all_binops.
Proof. destruct b; cbn; tauto. Qed.
Lemma existsb_eqb_in x l : existsb (Z.eqb x) l = true -> In x l.
Proof. intros H. apply existsb_exists in H. destruct H as (y & Hy & E). apply Z.eqb_eq in E. subst. exact Hy. Qed.
Lemma shift_some_inj a b : act_eqb (Some (Shift a)) (option_map Shift b) = true -> b = Some a.
Proof. destruct b; cbn; [intros H; f_equal; lia|discriminate]. Qed.

(* ---------- the facts, as used by the induction ---------- *)
Lemma ES_goto s : ES s -> exists q, goto_E s = Some q.
Proof. intros H. pose proof k_goto as K. unfold c_goto in K. rewrite forallb_forall in K. apply K in H. destruct (goto_E s) as [q|] eqn:G; [eauto|discriminate]. Qed.
Lemma H_atom_shift s : ES s -> act_of s T_NUMBER = Some (Shift sA).
Proof. intros H. pose proof k_atom_shift as K. unfold c_atom_shift in K. rewrite forallb_forall in K. apply act_eqb_eq, K, H. Qed.
Lemma H_lp_shift s : ES s -> act_of s T_LPAREN = Some (Shift sL).
Proof. intros H. pose proof k_lp_shift as K. unfold c_lp_shift in K. rewrite forallb_forall in K. apply act_eqb_eq, K, H. Qed.
Lemma H_neg_shift s : ES s -> act_of s T_MINUS = Some (Shift sU).
Proof. intros H. pose proof k_neg_shift as K. unfold c_neg_shift in K. rewrite forallb_forall in K. apply act_eqb_eq, K, H. Qed.
Lemma H_atom_red k : follow k -> act_of sA k = Some (Reduce iA).
Proof. intros H. pose proof k_atom_red as K. unfold c_atom_red in K. rewrite forallb_forall in K. apply act_eqb_eq, K, follow_in, H. Qed.
Lemma H_par_red k : follow k -> act_of sR k = Some (Reduce iPar).
Proof. intros H. pose proof k_par_red as K. unfold c_par_red in K. rewrite forallb_forall in K. apply act_eqb_eq, K, follow_in, H. Qed.
Lemma H_neg_red k : follow k -> act_of qU k = Some (Reduce iNeg).
Proof. intros H. pose proof k_neg_red as K. unfold c_neg_red in K. rewrite forallb_forall in K. apply act_eqb_eq, K, follow_in, H. Qed.
Lemma H_shapes : shape_of iA = Some PAtom /\ shape_of iPar = Some PPar /\ shape_of iNeg = Some PNeg.
Proof. vm_compute. repeat split; reflexivity. Qed.
Lemma H_paren : ES sL /\ ES sU /\ ES 0 /\ ctx qL = None /\ ctx q0 = None /\ act_of qL T_RPAREN = Some (Shift sR) /\
  goto_E sL = Some qL /\ goto_E sU = Some qU /\ goto_E 0 = Some q0 /\ ctx qU = Some (Z.to_nat uminus_level).
Proof. vm_compute. repeat split; try reflexivity; tauto. Qed.
Lemma entersb_enters q b : enters q b -> entersb q b = true.
Proof. unfold enters, entersb. destruct (ctx q); [intros H; apply Nat.ltb_lt; exact H|reflexivity]. Qed.
Lemma H_op_shift s q b : ES s -> goto_E s = Some q -> enters q b -> act_of q (op_term b) = Some (Shift (opst b)).
Proof.
  intros H Hg He. pose proof k_op_shift as K. unfold c_op_shift in K. rewrite forallb_forall in K. specialize (K s H).
  rewrite forallb_forall in K. specialize (K b (binop_in b)). unfold goto_target in K. rewrite Hg in K.
  rewrite (entersb_enters q b He) in K. cbn [negb orb] in K. apply act_eqb_eq. exact K.
Qed.
Lemma H_opst b : ES (opst b) /\ goto_E (opst b) = Some (ae b) /\ ctx (ae b) = Some (lvl b) /\
  exists b', shape_of (iBin b) = Some (PBin b') /\ op_term b' = op_term b.
Proof. destruct b; vm_compute; (repeat split; try tauto); eexists; split; reflexivity. Qed.
Lemma op_term_inj a b : op_term a = op_term b -> a = b.
Proof. destruct a, b; try reflexivity; vm_compute; discriminate. Qed.
Lemma H_bin_shape b : shape_of (iBin b) = Some (PBin b).
Proof. destruct (H_opst b) as (_ & _ & _ & b' & S & E). apply op_term_inj in E. subst. exact S. Qed.
Lemma H_bin_red_op a b : (lvl a <= lvl b)%nat -> act_of (ae b) (op_term a) = Some (Reduce (iBin b)).
Proof.
  intros H. pose proof k_bin_red as K. unfold c_bin_red in K. rewrite forallb_forall in K. specialize (K b (binop_in b)).
  apply andb_prop in K. destruct K as [K _]. rewrite forallb_forall in K. specialize (K a (binop_in a)).
  assert ((lvl a <=? lvl b)%nat = true) as L by (apply Nat.leb_le; exact H). rewrite L in K. apply act_eqb_eq. exact K.
Qed.
Lemma H_bin_red_term k b : term k -> act_of (ae b) k = Some (Reduce (iBin b)).
Proof.
  intros H. pose proof k_bin_red as K. unfold c_bin_red in K. rewrite forallb_forall in K. specialize (K b (binop_in b)).
  apply andb_prop in K. destruct K as [_ K]. rewrite forallb_forall in K. apply act_eqb_eq, K, H.
Qed.

(* ---------- well-parenthesised trees ---------- *)
Definition topop (t : tree) : option binop := match t with Bin b _ _ => Some b | _ => None end.
Fixpoint wp (t : tree) : Prop :=
  match t with
  | Atom _ => True
  | Par t => wp t
  | Neg t => wp t /\ topop t = None
  | Bin b l r => wp l /\ wp r
      /\ (match topop l with Some bl => (lvl b <= lvl bl)%nat | None => True end)
      /\ (match topop r with Some br => (lvl b < lvl br)%nat | None => True end)
  end.
Definition enter_ok (q : Z) (t : tree) : Prop := match topop t with Some b => enters q b | None => True end.
Definition follow_ok (t : tree) (k : Z) : Prop :=
  term k \/ exists a, k = op_term a /\ match topop t with Some b => (lvl a <= lvl b)%nat | None => True end.
Lemma follow_ok_follow t k : follow_ok t k -> follow k.
Proof. intros [H|[a [H _]]]; [left; exact H|right; eauto]. Qed.

Theorem lr_parses_tree : forall t, wp t ->
  forall (st : stack) (r : list token) q,
    ES (top st) -> goto_E (top st) = Some q -> enter_ok q t -> follow_ok t (la r) ->
    steps (st, toks t ++ r) ((q, STree t) :: st, r).
Proof.
  destruct H_shapes as (ShA & ShP & ShN).
  destruct H_paren as (HESL & HESU & HES0 & HctxL & Hctx0 & Hrp & HgoL & HgoU & Hgo0 & HctxU).
  induction t as [a | t IH | b l IHl r0 IHr | t IH]; intros Hwp st r q HES Hgo Hent Hfol.
  - (* Atom *)
    cbn [toks app]. eapply steps_step.
    { unfold step. cbn [la tk]. rewrite (H_atom_shift _ HES). reflexivity. }
    apply steps_one. unfold step. cbn [top]. rewrite (H_atom_red _ (follow_ok_follow _ _ Hfol)).
    unfold reduce. rewrite ShA. cbn [lexeme]. rewrite Hgo. reflexivity.
  - (* Neg *)
    destruct Hwp as [Hwp Htop]. cbn [toks app].
    eapply steps_step.
    { unfold step. cbn [la tk]. rewrite (H_neg_shift _ HES). reflexivity. }
    eapply steps_trans.
    { apply (IH Hwp ((sU, STok (Tok T_MINUS [45])) :: st) r qU); cbn [top]; auto.
      - unfold enter_ok. rewrite Htop. exact I.
      - destruct Hfol as [H|[a [H _]]]; [left; exact H|right; exists a; split; [exact H|rewrite Htop; exact I]]. }
    apply steps_one. unfold step. cbn [top].
    rewrite (H_neg_red _ (follow_ok_follow _ _ Hfol)). unfold reduce. rewrite ShN. rewrite Hgo. reflexivity.
  - (* Bin *)
    destruct Hwp as (Hwl & Hwr & Hl & Hr). cbn [toks]. rewrite <- app_assoc. cbn [app].
    unfold enter_ok in Hent. cbn [topop] in Hent.
    eapply steps_trans.
    { apply (IHl Hwl st (Tok (op_term b) (op_lexeme b) :: toks r0 ++ r) q HES Hgo).
      - unfold enter_ok. revert Hl. destruct (topop l) as [bl|]; [|intros; exact I].
        revert Hent. unfold enters. destruct (ctx q); intros; [lia|exact I].
      - right. exists b. split; [reflexivity|]. revert Hl. destruct (topop l); intros Hl; [exact Hl|exact I]. }
    eapply steps_step.
    { unfold step. cbn [top la tk]. rewrite (H_op_shift _ _ _ HES Hgo Hent). reflexivity. }
    destruct (H_opst b) as (HESo & Hgoo & Hctx & _).
    eapply steps_trans.
    { apply (IHr Hwr ((opst b, STok (Tok (op_term b) (op_lexeme b))) :: (q, STree l) :: st) r (ae b)); cbn [top]; auto.
      - unfold enter_ok. revert Hr. destruct (topop r0) as [br|]; intros Hr; [|exact I]. unfold enters. rewrite Hctx. exact Hr.
      - destruct Hfol as [H|[a [H Ha]]]; [left; exact H|]. right. exists a. split; [exact H|].
        cbn [topop] in Ha. revert Hr. destruct (topop r0); intros Hr; [lia|exact I]. }
    apply steps_one. unfold step. cbn [top].
    assert (act_of (ae b) (la r) = Some (Reduce (iBin b))) as Hact.
    { destruct Hfol as [H|[a [H Ha]]]; [apply H_bin_red_term; exact H|]. rewrite H. apply H_bin_red_op. exact Ha. }
    rewrite Hact. unfold reduce. rewrite (H_bin_shape b). rewrite Hgo. reflexivity.
  - (* Par *)
    cbn [toks app]. rewrite <- app_assoc. cbn [app].
    eapply steps_step.
    { unfold step. cbn [la tk]. rewrite (H_lp_shift _ HES). reflexivity. }
    eapply steps_trans.
    { apply (IH Hwp ((sL, STok (Tok T_LPAREN [40])) :: st) (Tok T_RPAREN [41] :: r) qL); cbn [top]; auto.
      - unfold enter_ok, enters. rewrite HctxL. destruct (topop t); exact I.
      - left. unfold term, terminators. cbn [la tk]. left. reflexivity. }
    eapply steps_step.
    { unfold step. cbn [top la tk]. rewrite Hrp. reflexivity. }
    apply steps_one. unfold step. cbn [top].
    rewrite (H_par_red _ (follow_ok_follow _ _ Hfol)). unfold reduce. rewrite ShP. rewrite Hgo. reflexivity.
Qed.

(* a whole formula, from the start state: the stack ends holding exactly the tree, at the state reached by expression *)
Corollary parses_from_start t : wp t -> steps ([], toks t) ([(q0, STree t)], []).
Proof.
  intros Hw. destruct H_paren as (_ & _ & HES0 & _ & Hctx0 & _ & _ & _ & Hgo0 & _).
  pose proof (lr_parses_tree t Hw [] [] q0) as X. rewrite app_nil_r in X. apply X.
  - exact HES0.
  - exact Hgo0.
  - unfold enter_ok, enters. rewrite Hctx0. destruct (topop t); exact I.
  - left. unfold term, terminators. cbn. tauto.
Qed.

(* the declared precedence is the usual one on the property's fragment *)
Theorem prec_is_usual :
  lvl Mult = lvl Div /\ lvl Plus = lvl Minus /\ (lvl Plus < lvl Mult)%nat /\
  (forall c, In c [Gt; Lt; Ge; Le; Eq; Ne] -> (lvl c < lvl Plus)%nat /\ (lvl c < lvl Amp)%nat) /\
  (forall b, (lvl b < Z.to_nat uminus_level)%nat).
Proof.
  repeat split; try (vm_compute; lia).
  - destruct H as [<-|[<-|[<-|[<-|[<-|[<-|[]]]]]]]; vm_compute; lia.
  - destruct H as [<-|[<-|[<-|[<-|[<-|[<-|[]]]]]]]; vm_compute; lia.
  - destruct b; vm_compute; lia.
Qed.
