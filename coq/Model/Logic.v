(* formulas/logic.py and the type predicates of formulas/information.py *)
From HX Require Export Model.Value.
Open Scope Z_scope.

Definition count_true (l : list value) : nat := length (filter truthy l).

Definition fn_AND (args : list value) : outcome :=
  let l := flatten_args args in
  match first_error l with Some e => Ret (VErr e) | None => Ret (VBool (forallb truthy l)) end.
Definition fn_OR (args : list value) : outcome :=
  let l := flatten_args args in
  match first_error l with Some e => Ret (VErr e) | None => Ret (VBool (existsb truthy l)) end.
Definition fn_XOR (args : list value) : outcome :=
  let l := flatten_args args in
  match first_error l with Some e => Ret (VErr e) | None => Ret (VBool (Nat.odd (count_true l))) end.
Definition fn_NOT (args : list value) : outcome :=
  match args with
  | [VErr e] => Ret (VErr e)
  | [v] => Ret (VBool (negb (truthy v)))
  | _ => PyExc                                   (* wrong number of arguments: TypeError *)
  end.
Definition fn_IF (args : list value) : outcome :=
  match args with
  | [VErr e; _; _] => Ret (VErr e)
  | [c; a; b] => Ret (if truthy c then a else b)
  | _ => PyExc
  end.
(* IFS, variadic: zip(args[::2], args[1::2]); a trailing unpaired condition is ignored *)
Fixpoint fn_IFS_aux (args : list value) : value :=
  match args with
  | c :: v :: r => match c with
                   | VErr e => VErr e
                   | _ => if truthy c then v else fn_IFS_aux r
                   end
  | _ => VErr ENA
  end.
Definition fn_IFS (args : list value) : outcome := Ret (fn_IFS_aux args).

(* SWITCH(target, then variadic case/result pairs and an optional default) *)
Fixpoint switch_scan (target : value) (pairs : list value) : option value :=
  match pairs with
  | c :: v :: r => if py_eq target c then Some v else switch_scan target r
  | _ => None
  end.
Definition fn_SWITCH (all : list value) : outcome :=
  match all with
  | [] => PyExc
  | target :: args =>
      if (length args <=? 1)%nat then Ret (VErr ENA)
      else
        let odd := Nat.odd (length args) in
        let pairs := if odd then removelast args else args in
        match switch_scan target pairs with
        | Some v => Ret v
        | None => if odd then Ret (last args VBlank) else Ret (VErr ENA)
        end
  end.

(* ---------- type predicates ---------- *)
Definition p_ISNUMBER (v : value) : bool := match v with VInt _ | VFlt _ => true | _ => false end.
Definition p_ISTEXT (v : value) : bool := match v with VText _ => true | _ => false end.
Definition p_ISLOGICAL (v : value) : bool := match v with VBool _ => true | _ => false end.
Definition p_ISBLANK (v : value) : bool := match v with VBlank => true | _ => false end.
Definition p_ISERROR (v : value) : bool := match v with VErr _ => true | _ => false end.
Definition p_ISNA (v : value) : bool := match v with VErr ENA => true | _ => false end.
Definition p_ISERR (v : value) : bool := match v with VErr ENA => false | VErr _ => true | _ => false end.
Definition p_ISNONTEXT (v : value) : bool := negb (p_ISTEXT v).

(* int(number) for the numeric classes *)
Definition int_part (v : value) : option Z :=
  match v with
  | VInt z => Some z
  | VFlt q => Some (Z.quot (Qnum q) (QDen q))
  | VBool b => Some (if b then 1 else 0)
  | _ => None
  end.
Definition fn_ISEVEN (v : value) : value :=
  match int_part v with Some z => VBool (Z.even z) | None => VErr EVALUE end.
Definition fn_ISODD (v : value) : value :=
  match int_part v with Some z => VBool (Z.odd z) | None => VErr EVALUE end.

Definition pred1 (f : value -> value) (args : list value) : outcome :=
  match args with [v] => Ret (f v) | _ => PyExc end.
Definition predb (f : value -> bool) : list value -> outcome := pred1 (fun v => VBool (f v)).

(* ---------- runner entry: [fn; nargs; args...] ---------- *)
Definition logic_dispatch (fn : Z) (args : list value) : outcome :=
  match fn with
  | 0 => fn_AND args | 1 => fn_OR args | 2 => fn_XOR args | 3 => fn_NOT args
  | 4 => fn_IF args | 5 => fn_IFS args | 6 => fn_SWITCH args
  | 10 => predb p_ISNUMBER args | 11 => predb p_ISTEXT args | 12 => predb p_ISLOGICAL args
  | 13 => predb p_ISBLANK args | 14 => predb p_ISERROR args | 15 => predb p_ISERR args
  | 16 => predb p_ISNA args | 17 => predb p_ISNONTEXT args
  | 18 => pred1 fn_ISEVEN args | 19 => pred1 fn_ISODD args
  | _ => PyExc
  end.
Definition e_logic (a : list Z) : list Z :=
  match a with
  | fn :: n :: r => enc_outcome (logic_dispatch fn (fst (dec_vals (Z.to_nat n) r)))
  | _ => [-1]
  end.
