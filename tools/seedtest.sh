#!/bin/bash
# usage: tools/seedtest.sh <seed-dir> <Cxx> [<Cyy> ...]
# Applies <seed-dir>/patch.diff to a scratch worktree of /repo HEAD, confirms the seed (existing tests pass,
# demo fails with the change, demo passes without), runs the given checks against it, removes the worktree.
set -u
seed="$(realpath "$1")"; shift
wt=$(mktemp -d /tmp/seedwt.XXXXXX); rmdir "$wt"
git -C /repo worktree add -q --detach "$wt" HEAD || exit 2
cleanup() { git -C /repo worktree remove --force "$wt" >/dev/null 2>&1; rm -rf "$wt"; git -C /verif checkout -- coq/Gen 2>/dev/null; }
trap cleanup EXIT
run() { ( cd "$wt" && PYTHONPATH="$wt" PYTHONHASHSEED=0 PYTHONDONTWRITEBYTECODE=1 timeout 600 "$@" ); }
run /venv/bin/python "$seed/demo.py" >/dev/null 2>&1; d0=$?
git -C "$wt" apply "$seed/patch.diff" || { echo "SEED patch does not apply"; exit 2; }
run /venv/bin/python -m pytest -q -p no:cacheprovider -x 2>&1 | tail -1 | sed 's/^/SEED tests with change: /'
run /venv/bin/python "$seed/demo.py" >/dev/null 2>&1; d1=$?
echo "SEED demo exit without change: $d0 ; with change: $d1"
for p in "$@"; do
  out=$(cd /verif && VERIF_REPO="$wt" VERIF_NO_EVIDENCE=1 timeout 3000 ./check "$p" --tier quick 2>&1); rc=$?
  echo "CHECK $p rc=$rc :: $(echo "$out" | grep -E 'VIOLATION|KNOWN-FINDING' | head -3 | tr '\n' ' ')"
  echo "$out" | tail -1
done
