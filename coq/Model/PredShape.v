(* The shapes of the type predicates of formulas/information.py as data, with their meaning on model values.
   Gen/PredFns.v holds ISNUMBER, ISTEXT, ISLOGICAL, ISBLANK, ISERROR, ISERR, ISNA, ISNONTEXT as class-test expressions
   and ISEVEN, ISODD as parity shapes, regenerated from the source on every run by tools/gen/predshape.py (python
   ast, fail-closed); Proofs/PredSource.v proves that they denote the p_IS* / fn_ISEVEN / fn_ISODD of Model/Logic.v. *)
From HX Require Export Model.Logic.
Open Scope Z_scope.

Inductive pycls :=
| CBool            (* bool *)
| CNumber          (* number_types = (int, float, complex): bool is an int *)
| CString          (* string_types = (str,) *)
| CError           (* error.XLError *)
| CDatetime.       (* datetime.datetime *)

Definition isinst (c : pycls) (v : value) : bool :=
  match c, v with
  | CBool, VBool _ => true
  | CNumber, VInt _ | CNumber, VFlt _ | CNumber, VBool _ => true
  | CString, VText _ => true
  | CError, VErr _ => true
  | CDatetime, VDate _ => true
  | _, _ => false
  end.

Inductive pexp :=
| PIsInst (cs : list pycls)          (* isinstance(value, c) / isinstance(value, (c1, c2, ...)) *)
| PIsNone                            (* value is None *)
| PEqErr (e : err)                   (* value == error.X   (XLError compares by identity; the constants are canonical) *)
| PNeErr (e : err)                   (* value != error.X *)
| PNot (a : pexp)
| PAnd (a b : pexp)
| POr (a b : pexp).

Definition is_the_error (e : err) (v : value) : bool :=
  match v with VErr e' => err_eqb e e' | _ => false end.

Fixpoint peval (v : value) (e : pexp) : bool :=
  match e with
  | PIsInst cs => existsb (fun c => isinst c v) cs
  | PIsNone => match v with VBlank => true | _ => false end
  | PEqErr e => is_the_error e v
  | PNeErr e => negb (is_the_error e v)
  | PNot a => negb (peval v a)
  | PAnd a b => peval v a && peval v b
  | POr a b => peval v a || peval v b
  end.

(* if not isinstance(number, <classes>): return error.VALUE ; return (int(number) & 1) == bit *)
Record parity_fn := { pf_classes : list pycls; pf_bit : Z }.
Definition run_parity (f : parity_fn) (v : value) : value :=
  if negb (existsb (fun c => isinst c v) (pf_classes f)) then VErr EVALUE
  else match int_part v with
       | Some z => VBool (Z.land z 1 =? pf_bit f)
       | None => VErr EERROR                       (* int() of a non-number: TypeError *)
       end.
