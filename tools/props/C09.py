# -*- coding: utf-8 -*-
"""C09 - names resolve to what was registered; unknown names are #NAME?.  Theorems: Properties/C09.v."""
import os
import random
import re
import sys

import interp
import refgen
from common import Result, pmap, compare, VERIF, canon_py

ID = 'C09'
COQ_FILES = ['Properties/C09.v', 'Proofs/RefsProofs.v', 'Proofs/LRfull.v', 'Proofs/LRcert.v', 'Gen/Grammar.v', 'Gen/Registry.v']
TRUSTED = [
    'Gen/Registry.v regenerated on every run: the names of the live registry, the names listed in SUPPORTED_FORMULAS.md, the '
    'predefined variables of a fresh Parser; Gen/Grammar.v: the LALR tables / lexer rules of the live ply parser',
    'modelled, not verified: Parser.call_function / call_variable, Dispatcher.get_for (membership in the generated name list), the '
    'token recognisers for FUNCTION / *_CELL / VARIABLE, ply LRParser; tied by the correspondence of this check',
]
EXPLANATION = ('Coq theorems: every name of the class good_name (word characters, not starting with letters+digit; a letter followed by '
               'at least one more character, or letters/underscores only) lexes as one VARIABLE token and the formula consisting of it '
               'evaluates to the registered value (latest binding; TRUE/FALSE/NULL predefined as generated from the code), unknown -> '
               '#NAME?; a custom function takes precedence over a built-in, receives the evaluated arguments in order, once per call '
               'site (the event trace of any expression is the post-order list of its references) and its return value is the call\'s '
               'value; every name listed in SUPPORTED_FORMULAS.md is in the registry and never resolves to #NAME?; an unknown '
               'function or variable at ANY position of any expression never yields a value, and is #NAME? once its arguments '
               'evaluate. Tied to the code by random names x values (identity for arbitrary Python objects), formulas with an unknown '
               'call/variable substituted at every position, shadowing of built-ins, call counts.')
ASSUMPTIONS = ['custom functions and listeners return; a Python exception raised by another custom function earlier in the same formula '
               'gives #ERROR! before the unknown name is reached']


def gen(ctx):
    sys.path.insert(0, os.path.join(VERIF, 'tools', 'gen'))
    import grammar
    import registry
    a = grammar.write(os.path.join(VERIF, 'coq', 'Gen', 'Grammar.v'))
    b = registry.write(os.path.join(VERIF, 'coq', 'Gen', 'Registry.v'), os.environ.get('VERIF_SNAPSHOT', '/repo'))
    return {'Gen/Grammar.v': 'regenerated (changed)' if a else 'regenerated (identical to the committed baseline)',
            'Gen/Registry.v': 'regenerated (changed)' if b else 'regenerated (identical to the committed baseline)'}


class Opaque(object):
    def __repr__(self):
        return '<Opaque>'


def values():
    import datetime
    import decimal
    import fractions
    return [0, 1, -7, 2 ** 70, 0.0, 2.5, float('inf'), float('nan'), '', 'text', u'h\xe9 中', True, False, None, [], [1, 'a', None], [[1, 2], [3, 4]],
            (1, 2), {'a': 1}, {1, 2}, Opaque(), object, len, datetime.datetime(2020, 2, 29, 12), datetime.date(1999, 1, 1), decimal.Decimal('1.5'),
            fractions.Fraction(1, 3), b'bytes', complex(1, 2), lambda: 3, range(3)]


def rand_name(rng):
    k = rng.randrange(10)
    if k < 4:
        return ''.join(rng.choice('abcxyzABCXYZ_') for _ in range(rng.randint(1, 8)))
    if k < 7:
        return rng.choice('abcxyzABCXYZ') + ''.join(rng.choice('abcXYZ_0123456789') for _ in range(rng.randint(1, 8)))
    if k == 7:
        return '_' + ''.join(rng.choice('abc_0123456789') for _ in range(rng.randint(0, 5)))
    if k == 8:
        return rng.choice([u'\xe9t\xe9', u'中', u'na\xefve', u'x́', u'αβ']) + rng.choice(['', 'a', '1'])
    return rng.choice(['TRUE', 'FALSE', 'NULL', 'true', 'x', 'PI', 'SUM', 'e', 'E', 'a1b', 'ab12cd', 'R1C1', 'A_1', 'x1', 'xfd1048577', 'IF',
                       'inf', 'nan', 'Infinity', 'NaN', 'INF', 'infinity', 'None', 'True', 'j', 'e_', 'inf_'])      # words float() / eval() would read


def name_class(n):
    """None = the property applies and the name is in the proved class; otherwise the reason it is set aside"""
    if not re.match(r'[^\W\d]\w*\Z', n, re.U):
        return 'not_identifier'
    if refgen.CELL_SHAPED.match(n):
        return 'cell_shaped'
    if refgen.good_name(n):
        return None
    return 'name_not_one_variable_token'


def check_name(item):
    """set_variable(name, v): the formula 'name' evaluates to exactly v"""
    n, vi = item
    import hotxlfp
    from hotxlfp.formulas.error import XLError
    v = values()[vi]
    cls = name_class(n)
    if cls in ('not_identifier', 'cell_shaped'):
        return []
    p = hotxlfp.Parser()
    p.set_variable(n, v)
    r = p.parse(n)
    out = []
    ok = r['error'] is None and (r['result'] is v or (r['result'] == v and type(r['result']) is type(v)))
    if not ok:
        out.append(('set_variable(%r, %r); parse(%r)' % (n, v, n), cls, repr(v), repr(r)))
    if cls is None:
        q = hotxlfp.Parser()
        r2 = q.parse(n)
        if n not in ('TRUE', 'FALSE', 'NULL') and r2 != {'result': None, 'error': '#NAME?'}:
            out.append(('parse(%r) with nothing registered' % n, None, '#NAME?', repr(r2)))
        # embedded: F(name) receives the value
        got = []
        p.set_function('F', lambda *a: got.append(a) or 1)
        r3 = p.parse('F(1,%s)' % n)
        if r3 != {'result': 1, 'error': None} or len(got) != 1 or len(got[0]) != 2 or got[0][1] is not v and got[0][1] != v:
            out.append(('F(1,%s) with %s=%r' % (n, n, v), None, repr((1, v)), repr((r3, got))))
    return out


def check_documented(_):
    import hotxlfp
    root = os.environ.get('VERIF_SNAPSHOT', '/repo')
    names = []
    for line in open(os.path.join(root, 'SUPPORTED_FORMULAS.md')):
        line = line.strip()
        if line.startswith('#') and names:
            break
        m = re.match(r'[-*]\s+`?([A-Z][A-Z0-9_.]*)`?\s*$', line)
        if m:
            names.append(m.group(1))
    out = []
    if len(names) < 100:
        out.append(('SUPPORTED_FORMULAS.md', None, '>= 100 names', len(names)))
    p = hotxlfp.Parser()
    for n in names:
        # a built-in may itself return #NAME? for some arguments (DATEDIF with a non-text unit); an unresolved name is
        # #NAME? whatever the arguments
        rs = [p.parse(f) for f in ('%s()' % n, '%s(1)' % n, '%s(1,2)' % n, '%s(1,2,3)' % n, '%s("a","b")' % n)]
        if all(r['error'] == '#NAME?' for r in rs):
            out.append((n + '(...)', None, 'resolves to a built-in', repr(rs[0])))
    for n, v in (('TRUE', True), ('FALSE', False), ('NULL', None)):
        r = hotxlfp.Parser().parse(n)
        if r != {'result': v, 'error': None}:
            out.append((n, None, repr(v), repr(r)))
    return out


HOST = dict(vars={'alpha': 5, 'beta': 'txt', 'gam': None, 'de_lta': 11, 'q': -2}, funs={'F': 'record', 'REC': 'record', 'G': 'ident', 'K': ('const', 9), 'SUM': 'record'},
            cells={'A1': [3], 'B2': [None, 0]}, ranges=[[1, 2]], varset={}, funset={})


def check_unknown(item):
    """an unknown call / variable substituted at one position of a well-behaved formula: #NAME?"""
    tree, formula = item
    rec, evs = interp.impl_case(refgen.to_case(tree, HOST, formula))
    kind, v, want_evs = refgen.expected(tree, HOST)
    out = []
    if rec != ('E', '#NAME?'):
        out.append((formula, None, "('E', '#NAME?')", repr(rec)))
    if kind != 'NAME':
        out.append((formula, None, 'generator: the tree contains an unknown name', kind))
    return out


def check_calls(item):
    """call counts: every call site of a custom function calls it exactly once with the evaluated arguments in order"""
    tree, formula = item
    import hotxlfp
    p = hotxlfp.Parser()
    log = []
    for n, k in HOST['funs'].items():
        if k == 'record':
            p.set_function(n, lambda *a, n=n: log.append((n, tuple(canon_py(x) for x in a))) or list(a))
        elif k == 'ident':
            p.set_function(n, lambda *a, n=n: log.append((n, tuple(canon_py(x) for x in a))) or a[0])
        else:
            p.set_function(n, lambda *a, n=n, v=k[1]: log.append((n, tuple(canon_py(x) for x in a))) or v)
    for n, v in HOST['vars'].items():
        p.set_variable(n, v)
    p.on('callCellValue', lambda cell, done: [done(x) for x in HOST['cells'].get(cell.label, [])])
    p.on('callRangeValue', lambda a, b, done: [done(x) for x in HOST['ranges']])
    r = p.parse(formula)
    kind, v, evs = refgen.expected(tree, HOST)
    want = [(e[1], tuple(canon_py(a) for a in e[2])) for e in evs if e[0] == 'fn']
    out = []
    if log != want:
        out.append((formula, None, repr(want), repr(log)))
    if kind == 'R' and (r['error'] is not None or canon_py(r['result']) != canon_py(v)):
        out.append((formula, None, repr(v), repr(r)))
    return out


TRAPS = ['IFERROR(%s,1)', 'ISERROR(%s)', 'ISERR(%s)', 'IFNA(%s,2)', 'ISNA(%s)', 'ERROR.TYPE(%s)', 'IF(ISERROR(%s),1,2)', 'COUNT(%s)', 'AND(%s)',
         'IFERROR(1+%s,1)', 'IFERROR(F(%s),1)', 'ISBLANK(%s)', 'ISTEXT(%s)', 'CHOOSE(1,2,%s)', 'IF(FALSE,%s,3)', 'IFERROR(-%s,0)', 'ISERROR(%s&"a")',
         'ISERROR((%s))', 'IFERROR(%s=1,0)', 'SUM(1,IFERROR(%s,5))', 'T(%s)', 'N(%s)', 'NOT(ISERROR(%s))']
UNKNOWNS = ['NOPE()', 'nope', 'Sum(1)', 'UNKNOWN.FN(1,2)', 'FOO_BAR(A1)', 'un_set', 'f()', 'Zeta(alpha)']


def check_trapped(f):
    """an unknown name inside error-trapping / error-inspecting built-ins is still #NAME? (raised, not a value)"""
    rec, evs = interp.impl_case(refgen.to_case(('num', 0), HOST, f))
    return [] if rec == ('E', '#NAME?') else [(f, None, "('E', '#NAME?')", repr(rec))]


def check_rebinding(seed):
    """registrations made AFTER a name has already been used on the same parser take effect: a custom function registered
    over a built-in that was already called, a custom function replaced by another one, a variable re-bound, and a custom
    function / variable registered after the name evaluated to #NAME?"""
    import hotxlfp
    rng = random.Random(seed)
    out = []
    builtins = ['SUM', 'MAX', 'IF', 'LEN', 'ABS', 'AND', 'ROUND', 'CONCATENATE', 'PI', 'TRUE']
    for _ in range(12):
        p = hotxlfp.Parser()
        n = rng.choice(builtins)
        f = '%s(2,3)' % n if n not in ('PI', 'TRUE', 'LEN', 'ABS') else ('%s()' % n if n in ('PI', 'TRUE') else '%s(2)' % n)
        warm = [p.parse(f) for _ in range(rng.randint(1, 3))]
        calls = []
        p.set_function(n, lambda *a: calls.append(a) or 1000)
        r = p.parse(f)
        if r != {'result': 1000, 'error': None} or len(calls) != 1:
            out.append(('%s evaluated %d time(s) as a built-in, then set_function(%r, f), then %s' % (f, len(warm), n, f), None,
                        "{'result': 1000, 'error': None} with one call of f", repr((r, calls))))
        calls2 = []
        p.set_function(n, lambda *a: calls2.append(a) or 2000)
        r = p.parse('1+' + f)
        if r != {'result': 2001, 'error': None} or len(calls2) != 1 or len(calls) != 1:
            out.append(('set_function(%r) a second time' % n, None, '2001, the new function called once', repr((r, calls, calls2))))
    p = hotxlfp.Parser()
    seq = []
    for name in ('vv', 'TRUE', 'NULL', 'ww'):
        before = p.parse(name)
        for val in (5, 0, 'txt', None, False, [1, 2]):
            p.set_variable(name, val)
            r = p.parse(name)
            if r != {'result': val, 'error': None}:
                out.append(('set_variable(%r, %r) after earlier evaluations of %s' % (name, val, name), None, repr(val), repr(r)))
    # any callable is a function: callable objects whose truth value is False (an empty memo dict with __call__, a
    # callable with __len__ 0 or __bool__ False), classes, bound methods, partials - under a new name and over a built-in
    import functools

    class Memo(dict):
        def __call__(self, *a):
            return 4000 + len(a)

    class Sized(object):
        def __len__(self):
            return 0

        def __call__(self, *a):
            return 5000 + len(a)

    class Never(object):
        def __bool__(self):
            return False
        __nonzero__ = __bool__

        def __call__(self, *a):
            return 6000 + len(a)

    class Holder(object):
        def m(self, *a):
            return 7000 + len(a)
    for label, fn, base in (('empty dict subclass with __call__', Memo(), 4000), ('callable with __len__() == 0', Sized(), 5000),
                            ('callable with __bool__() False', Never(), 6000), ('bound method', Holder().m, 7000),
                            ('functools.partial', functools.partial(lambda k, *a: k + len(a), 8000), 8000), ('class', int, None)):
        for name in ('CUSTOMFN', 'SUM', 'MAX'):
            w = hotxlfp.Parser()
            w.set_function(name, fn)
            r = w.parse('%s(2,3)' % name) if base is not None else w.parse('%s(2)' % name)
            want = {'result': base + 2 if base is not None else 2, 'error': None}
            if r != want:
                out.append(('set_function(%r, <%s>) then %s(...)' % (name, label, name), None, repr(want), repr(r)))
    # a registered function is called with whatever its arguments evaluate to - error values included
    from hotxlfp.formulas import error as _err
    w = hotxlfp.Parser()
    seen = []
    w.set_function('DESCRIBE', lambda *a: seen.append(a) or len(a))
    w.set_function('ISERROR', lambda *a: seen.append(a) or 'mine')
    for f, nargs, want in (('DESCRIBE(1,NA(),3)', 3, 3), ('DESCRIBE(1/0)', 1, 1), ('DESCRIBE(MOD(1,0),SUM(1/0))', 2, 2), ('ISERROR(1/0)', 1, 'mine'),
                           ('1+DESCRIBE(NA(),2)', 2, 3)):
        del seen[:]
        r = w.parse(f)
        if r != {'result': want, 'error': None} or len(seen) != 1 or len(seen[0]) != nargs or not any(isinstance(x, _err.XLError) for x in seen[0]):
            out.append(('%s with a registered function: called once with the evaluated arguments, error values included' % f, None,
                        repr(({'result': want, 'error': None}, 'one call, %d arguments' % nargs)), repr((r, seen))))
    q = hotxlfp.Parser()
    if q.parse('LATE(1)')['error'] != '#NAME?':
        out.append(('LATE(1) unregistered', None, '#NAME?', repr(q.parse('LATE(1)'))))
    q.set_function('LATE', lambda *a: 7)
    if q.parse('LATE(1)') != {'result': 7, 'error': None}:
        out.append(('LATE registered after it evaluated to #NAME?', None, '7', repr(q.parse('LATE(1)'))))
    return out


CHECKERS = {'rebinding': check_rebinding, 'trapped': check_trapped, 'name': check_name, 'documented': check_documented, 'unknown': check_unknown, 'calls': check_calls}


def thaw_tree(t):
    if isinstance(t, list):
        if t and t[0] == 'call':
            return ('call', t[1], [thaw_tree(a) for a in t[2]])
        return tuple(thaw_tree(x) for x in t)
    return t


def check_case(case):
    for k, fn in CHECKERS.items():
        if k in case:
            c = case[k]
            if k in ('unknown', 'calls'):
                c = (thaw_tree(c[0]), c[1])
            elif k == 'name':
                c = tuple(c)
            return [{'case': case, 'what': w, 'class': cls, 'expected': e, 'observed': g} for (w, cls, e, g) in fn(c)]
    return []


def _worker(kc):
    k, c = kc
    return [(k, c) + x for x in CHECKERS[k](c)]


def _impl(c):
    return interp.impl_case(c)


_NEAR = {}


def near_miss_names(rng, k):
    """unknown function names that sit next to known ones: a documented / registered name with a dotted or plain suffix, a
    prefix, a letter dropped or doubled, another case - minus whatever is itself documented, registered or a host function"""
    if 'known' not in _NEAR:
        from hotxlfp import formulas
        root = os.environ.get('VERIF_SNAPSHOT', '/repo')
        doc = re.findall(r'^[-*][ \t]+`?([A-Z][A-Z0-9_.]*)`?[ \t]*$', open(os.path.join(root, 'SUPPORTED_FORMULAS.md')).read(), re.M)
        _NEAR['known'] = set(doc) | set(formulas.supported()) | set(HOST['funs'])
        _NEAR['base'] = sorted(set(doc) | set(formulas.supported()))
    known, base = _NEAR['known'], _NEAR['base']
    out = []
    while len(out) < k:
        b = rng.choice(base)
        o = rng.choice(base)
        v = rng.choice([b + '.NOSUCH', b + '.X', b + '.' + o, b + '.' + o.split('.')[-1], b + 'X', b + '_', b + '2', 'X' + b, b[:-1], b + b[-1],
                        b.lower(), b.title(), b.split('.')[0] + '.Q', b.replace('.', '_'), b.replace('.', ''), b + '.'])
        if v in known or not re.match(r'[A-Za-z][A-Za-z_0-9.]+\Z', v) or refgen.CELL_SHAPED.match(v):
            continue
        out.append(v)
    return out


def unknown_items(rng, n, depth):
    items = []
    g = refgen.Gen(rng, HOST)
    near = near_miss_names(rng, 400)
    for _ in range(n):
        tree = g.any(rng.randint(1, depth))
        pos = refgen.positions(tree)
        path, sub = rng.choice(pos)
        numeric = sub[0] in ('num', 'neg', 'add') or (path and path[-1] in (1, 2) and len(path) >= 1 and path[0] != 2)
        if rng.random() < 0.7:
            nm = rng.choice(near) if rng.random() < 0.5 else rng.choice(['NOPE', 'Sum', 'sum', 'UNKNOWN.FN', 'FOO_BAR', 'f', 'Xyz9'])
            new = ('call', nm, [g.any(1) for _ in range(rng.randint(0, 2))])
        else:
            new = ('var', rng.choice(['nope', 'Alpha', 'un_set', 'zz']))
        t2 = refgen.replace(tree, path, new)
        items.append((t2, refgen.render(t2, rng if rng.random() < 0.3 else None)))
    return items


def explore(ctx):
    R = Result()
    rng = ctx.rng
    big = ctx.thorough
    nv = len(values())
    work = [('documented', 0)]
    names = sorted(set(rand_name(rng) for _ in range(6000 if big else 700)))
    classes = {}
    for n in names:
        c = name_class(n) or 'good_name'
        classes[c] = classes.get(c, 0) + 1
        for vi in ([rng.randrange(nv) for _ in range(3)] if not big else range(nv)):
            work.append(('name', (n, vi)))
    unk = unknown_items(rng, 20000 if big else 2000, 5 if big else 4)
    work += [('unknown', it) for it in unk]
    work += [('trapped', t % u) for t in TRAPS for u in UNKNOWNS]
    work += [('rebinding', ctx.seed * 10 + k) for k in range(4)]
    g = refgen.Gen(rng, HOST)
    calls = []
    for _ in range(10000 if big else 1500):
        t = g.any(rng.randint(1, 4))
        calls.append((t, refgen.render(t)))
    work += [('calls', it) for it in calls]
    for vs in pmap(_worker, work):
        for (k, c, w, cls, e, g_) in vs:
            R.violate({k: list(c) if isinstance(c, tuple) else c}, w, cls, e, g_)
    R.evaluations += len(work)
    # correspondence: names with encodable values, unknown-name formulas, call-count formulas
    cases = []
    enc_vals = [0, 1, -7, 2 ** 70, 2.5, '', 'text', True, False, None, [1, 'a', None]]
    for n in names:
        if all(ord(ch) < 128 for ch in n):
            cases.append(dict(formula=n, vars=[(n, rng.choice(enc_vals))], funs=[], cells=[], ranges=[]))
            cases.append(dict(formula=n, vars=[], funs=[], cells=[], ranges=[]))
            cases.append(dict(formula=n + '(1)', vars=[], funs=[(n, 'record', None)] if rng.random() < 0.5 else [], cells=[], ranges=[]))
    cases += [refgen.to_case(('num', 0), HOST, t % u) for t in TRAPS for u in UNKNOWNS]
    cases += [refgen.to_case(t, HOST, f) for (t, f) in unk] + [refgen.to_case(t, HOST, f) for (t, f) in calls]
    # shadowing of built-ins, built-ins without custom function
    for n in ('SUM', 'IF', 'AND', 'TRUE', 'NA', 'MAX'):
        for f in ('%s(1,2)' % n, '%s()' % n, '1+%s(2,3)' % n):
            cases.append(dict(formula=f, vars=[], funs=[(n, 'record', None)], cells=[], ranges=[]))
            cases.append(dict(formula=f, vars=[], funs=[], cells=[], ranges=[]))
    compare(R, ctx, 'parse', cases, interp.enc_case, _impl, key=lambda c: (c['formula'], repr(c['vars']), repr(c['funs'])), eq=interp.eq_case)
    R.extra['name_classes'] = classes
    R.rule = ('%d random names (classes %r) x values of %d Python types (identity required for objects): set_variable then parse(name), '
              'parse(name) unregistered, F(1,name); every name of the first section of SUPPORTED_FORMULAS.md with 0-3 arguments; '
              'unknown names inside %d error-trapping / inspecting built-in contexts; formulas with an unknown call or variable substituted at a random position of a random reference-mixing tree '
              '(depth <= %d); call logs of custom functions (count, order, arguments) against the generating tree; shadowed '
              'built-ins; model vs implementation on all encodable cases.' % (len(names), classes, nv, len(TRAPS), 5 if big else 4))
    return R


def search(ctx, proof, res):
    R = Result()
    rng = random.Random(ctx.seed + 99)
    work = [('documented', 0)]
    for n in sorted(set(rand_name(rng) for _ in range(1500))):
        for vi in range(0, len(values()), 3):
            work.append(('name', (n, vi)))
    work += [('unknown', it) for it in unknown_items(rng, 6000, 4)]
    work += [('trapped', t % u) for t in TRAPS for u in UNKNOWNS] + [('rebinding', k) for k in range(4)]
    g = refgen.Gen(rng, HOST)
    for _ in range(4000):
        t = g.any(rng.randint(1, 4))
        work.append(('calls', (t, refgen.render(t))))
    for vs in pmap(_worker, work):
        for (k, c, w, cls, e, g_) in vs:
            R.violate({k: list(c) if isinstance(c, tuple) else c}, w, cls, e, g_)
    R.evaluations = len(work)
    return R
