(* C02 / C03: with a private lexer object per evaluation, every evaluation - nested to depth 2 at any fetch positions,
   or interleaved with another thread under any schedule - reads exactly the tokens of its own text; with the global
   lexer object it does not (refutations by computation: what fix 6d6fa5b repaired). *)
From HX Require Import Model.Base Model.Lexer Model.Sessions Proofs.ComparatorProofs.
From Coq Require Import Lia.
Local Open Scope nat_scope.

Definition keeps (w w' : world) : Prop :=
  next_id w <= next_id w' /\ (forall id, id < next_id w -> lookup id (store w') = lookup id (store w)).
Lemma keeps_refl w : keeps w w. Proof. split; [lia|auto]. Qed.
Lemma keeps_trans a b c : keeps a b -> keeps b c -> keeps a c.
Proof. intros [A1 A2] [B1 B2]. split; [lia|]. intros id H. rewrite B2 by lia. apply A2, H. Qed.
Lemma lookup_set_same id v w : lookup id (store (set_store id v w)) = Some v.
Proof. cbn. rewrite Nat.eqb_refl. reflexivity. Qed.
Lemma lookup_set_other id id' v w : id <> id' -> lookup id' (store (set_store id v w)) = lookup id' (store w).
Proof. intros H. cbn. destruct (Nat.eqb id id') eqn:E; [apply Nat.eqb_eq in E; congruence|reflexivity]. Qed.
Lemma skipn_cons_firstn {A} : forall k (l : list A) t rest, skipn k l = t :: rest ->
  firstn (S k) l = firstn k l ++ [t] /\ skipn (S k) l = rest.
Proof.
  induction k as [|k IH]; intros l t rest H.
  - cbn in H. subst l. split; reflexivity.
  - destruct l as [|x l]; [discriminate|]. cbn [skipn] in H. destruct (IH l t rest H) as [E1 E2].
    split; [change (firstn (S (S k)) (x :: l)) with (x :: firstn (S k) l); rewrite E1; reflexivity|exact E2].
Qed.
Lemma skipn_nil_firstn {A} : forall k (l : list A), skipn k l = [] -> firstn k l = l.
Proof. induction k as [|k IH]; intros l H; [cbn in H; subst; reflexivity|]. destruct l as [|x l]; [reflexivity|]. cbn in *. f_equal. apply IH, H. Qed.

Section LevelProofs.
  Variable iplan ires : Type.
  Variable ieval : bool -> world -> iplan -> world * ires.
  Variable isize : iplan -> nat.
  Variable isolo : iplan -> ires -> Prop.
  Hypothesis ieval_keeps : forall w p w' r, ieval true w p = (w', r) -> keeps w w'.
  Hypothesis ieval_solo : forall w p w' r, ieval true w p = (w', r) -> isolo p r.

  Definition inner_ok (nested : list (nat * iplan)) (xs : list ires) : Prop :=
    Forall (fun x => exists p, In p (map snd nested) /\ isolo p x) xs.

  Lemma run_nested_ok : forall l w k w' xs, run_nested iplan ires ieval true w l k = (w', xs) -> keeps w w' /\ inner_ok l xs.
  Proof.
    induction l as [|[pos p] l IH]; intros w k w' xs H; cbn [run_nested] in H.
    - inversion H; subst. split; [apply keeps_refl|constructor].
    - destruct (Nat.eqb pos k).
      + destruct (ieval true w p) as [w1 x] eqn:E. destruct (run_nested iplan ires ieval true w1 l k) as [w2 ys] eqn:R.
        inversion H; subst. destruct (IH _ _ _ _ R) as [K F]. split; [eapply keeps_trans; [eapply ieval_keeps; eauto|exact K]|].
        constructor; [exists p; split; [left; reflexivity|eapply ieval_solo; eauto]|].
        eapply Forall_impl; [|exact F]. intros a (q & Hq & Sq). exists q. split; [right; exact Hq|exact Sq].
      + destruct (IH _ _ _ _ H) as [K F]. split; [exact K|].
        eapply Forall_impl; [|exact F]. intros a (q & Hq & Sq). exists q. split; [right; exact Hq|exact Sq].
  Qed.

  Lemma fetch_loop_private lid toks nested : forall fuel k w acc inner w' r,
    lid < next_id w -> lookup lid (store w) = Some (skipn k toks) -> acc = rev (firstn k toks) ->
    length toks < k + fuel -> inner_ok nested inner ->
    fetch_loop iplan ires ieval fuel true lid nested k w acc inner = (w', r) ->
    l_read r = toks /\ next_id w <= next_id w' /\
    (forall id, id <> lid -> id < next_id w -> lookup id (store w') = lookup id (store w)) /\ inner_ok nested (l_inner r).
  Proof.
    induction fuel as [|fuel IH]; intros k w acc inner w' r Hlid Hlk Hacc Hfuel Hin H; cbn [fetch_loop] in H.
    - inversion H; subst. cbn [l_read l_inner]. rewrite rev_involutive.
      split; [apply firstn_all2; lia|]. split; [lia|]. split; [auto|exact Hin].
    - destruct (run_nested iplan ires ieval true w nested k) as [w1 xs] eqn:R.
      destruct (run_nested_ok _ _ _ _ _ R) as [[K1 K2] F].
      assert (lookup lid (store w1) = Some (skipn k toks)) as L1 by (rewrite K2 by exact Hlid; exact Hlk).
      assert (inner_ok nested (inner ++ xs)) as Hin' by (apply Forall_app; split; assumption).
      rewrite L1 in H. destruct (skipn k toks) as [|t rest] eqn:S.
      + inversion H; subst. cbn [l_read l_inner]. rewrite rev_involutive.
        split; [apply skipn_nil_firstn; exact S|]. split; [exact K1|]. split; [intros id _ Hid; apply K2, Hid|exact Hin'].
      + destruct (skipn_cons_firstn _ _ _ _ S) as [F1 F2].
        destruct (IH (Datatypes.S k) (set_store lid rest w1) (t :: acc) (inner ++ xs) w' r) as (A & B & C & D); try assumption.
        * cbn. lia.
        * rewrite lookup_set_same, F2. reflexivity.
        * rewrite F1, rev_app_distr, Hacc. reflexivity.
        * assert (k < length toks). { destruct (Nat.lt_ge_cases k (length toks)); [assumption|]. rewrite skipn_all2 in S by lia. discriminate. } lia.
        * split; [exact A|]. split; [cbn in B; lia|]. split; [|exact D].
          intros id Hne Hid. rewrite C; [|exact Hne|cbn; lia]. rewrite lookup_set_other by congruence. apply K2, Hid.
  Qed.

  Theorem leval_private w p w' r : leval iplan ires ieval isize true w p = (w', r) ->
    keeps w w' /\ l_read r = lex_tokens (l_text p) /\ inner_ok (l_nested p) (l_inner r).
  Proof.
    unfold leval, open_lexer. intros H.
    set (toks := lex_tokens (l_text p)) in *.
    set (w0 := {| store := (next_id w, toks) :: store w; next_id := S (next_id w); global_lexer := global_lexer w |}) in *.
    destruct (fetch_loop_private (next_id w) toks (l_nested p) (lsize iplan isize p) 0 w0 [] [] w' r) as (A & B & C & D).
    - cbn. lia.
    - cbn. rewrite Nat.eqb_refl. reflexivity.
    - reflexivity.
    - unfold lsize. fold toks. lia.
    - constructor.
    - exact H.
    - split; [|split; [exact A|exact D]]. split; [cbn in B; lia|].
      intros id Hid. rewrite C; [|lia|cbn; lia]. cbn. destruct (Nat.eqb (next_id w) id) eqn:E; [apply Nat.eqb_eq in E; lia|reflexivity].
  Qed.
End LevelProofs.

(* ---------- depth 0, 1, 2 ---------- *)
Theorem eval0_private w s w' r : eval0 true w s = (w', r) -> keeps w w' /\ r = lex_tokens s.
Proof.
  unfold eval0. destruct (leval Empty_set unit _ _ true w _) as [w1 r1] eqn:E. intros H. inversion H; subst.
  destruct (leval_private Empty_set unit (fun _ w _ => (w, tt)) (fun _ => 0) (fun _ _ => True)) with (w := w) (p := {| l_text := s; l_nested := @nil (nat * Empty_set) |}) (w' := w') (r := r1) as (K & R & _).
  - intros w0 p. destruct p.
  - intros; exact I.
  - exact E.
  - split; [exact K|exact R].
Qed.
Definition solo1 (p : plan1) (r : lres (list token)) : Prop :=
  l_read r = lex_tokens (l_text p) /\ Forall (fun x => exists s, In s (map snd (l_nested p)) /\ x = lex_tokens s) (l_inner r).
Theorem eval1_private w p w' r : eval1 true w p = (w', r) -> keeps w w' /\ solo1 p r.
Proof.
  intros H. unfold eval1 in H.
  destruct (leval_private (list Z) (list token) eval0 (fun s => S (length (lex_tokens s))) (fun s r => r = lex_tokens s)) with (w := w) (p := p) (w' := w') (r := r) as (K & R & I).
  - intros w0 s w1 r0 E. apply (eval0_private _ _ _ _ E).
  - intros w0 s w1 r0 E. apply (eval0_private _ _ _ _ E).
  - exact H.
  - split; [exact K|]. split; [exact R|exact I].
Qed.
Definition solo2 (p : plan2) (r : lres (lres (list token))) : Prop :=
  l_read r = lex_tokens (l_text p) /\ Forall (fun x => exists q, In q (map snd (l_nested p)) /\ solo1 q x) (l_inner r).
Theorem eval2_private w p w' r : eval2 true w p = (w', r) -> keeps w w' /\ solo2 p r.
Proof.
  intros H. unfold eval2 in H.
  destruct (leval_private plan1 (lres (list token)) eval1 size1 solo1) with (w := w) (p := p) (w' := w') (r := r) as (K & R & I).
  - intros w0 q w1 r0 E. apply (eval1_private _ _ _ _ E).
  - intros w0 q w1 r0 E. apply (eval1_private _ _ _ _ E).
  - exact H.
  - split; [exact K|]. split; [exact R|exact I].
Qed.

(* with the global lexer object the outer evaluation loses its tokens:  1+2  with  3  evaluated after the first fetch *)
Definition w_init : world := {| store := []; next_id := 1; global_lexer := 0 |}.
Theorem shared_lexer_refuted :
  let p : plan1 := {| l_text := [49; 43; 50]%Z; l_nested := [(1, [51]%Z)] |} in
  l_read (snd (eval1 false w_init p)) <> lex_tokens (l_text p) /\
  l_read (snd (eval1 true w_init p)) = lex_tokens (l_text p).
Proof. split; [vm_compute; discriminate|vm_compute; reflexivity]. Qed.

(* ---------- threads ---------- *)
Definition tinv (w : world) (t : thread) (toks : list token) (n : nat) : Prop :=
  t_read t = firstn n toks /\
  (t_done t = false -> n <= length toks /\ lookup (t_lexer t) (store w) = Some (skipn n toks)) /\
  (t_done t = true -> length toks < n).
Lemma firstn_snoc {A} : forall n (l : list A) x rest, skipn n l = x :: rest -> firstn n l ++ [x] = firstn (S n) l.
Proof. intros n l x rest H. destruct (skipn_cons_firstn _ _ _ _ H) as [A1 _]. symmetry. exact A1. Qed.
Lemma tfetch_inv w t toks n w' t' : tinv w t toks n -> tfetch w t = (w', t') ->
  tinv w' t' toks (S n) /\ t_lexer t' = t_lexer t /\ (forall id, id <> t_lexer t -> lookup id (store w') = lookup id (store w)).
Proof.
  intros (R & Hnd & Hd) H. unfold tfetch in H. destruct (t_done t) eqn:D.
  - inversion H; subst. split; [|auto]. specialize (Hd eq_refl). split; [rewrite R, !firstn_all2 by lia; reflexivity|].
    split; [congruence|intros; lia].
  - destruct (Hnd eq_refl) as [Hn Hl]. rewrite Hl in H. destruct (skipn n toks) as [|x rest] eqn:S.
    + inversion H; subst. cbn [t_read t_done t_lexer]. split; [|auto].
      assert (length toks <= n). { destruct (Nat.lt_ge_cases n (length toks)) as [L|L]; [|exact L]. pose proof (skipn_length n toks) as SL. rewrite S in SL. cbn in SL. lia. }
      split; [rewrite R, !firstn_all2 by lia; reflexivity|]. split; [discriminate|intros; lia].
    + inversion H; subst. cbn [t_read t_done t_lexer]. destruct (skipn_cons_firstn _ _ _ _ S) as [F1 F2].
      assert (n < length toks). { destruct (Nat.lt_ge_cases n (length toks)); [assumption|]. rewrite skipn_all2 in S by lia. discriminate. }
      split; [|split; [reflexivity|intros id Hid; apply lookup_set_other; congruence]].
      split; [rewrite R, F1; reflexivity|]. split; [intros _; split; [lia|rewrite lookup_set_same, F2; reflexivity]|discriminate].
Qed.
Lemma tinv_frame w w' t toks n : tinv w t toks n -> lookup (t_lexer t) (store w') = lookup (t_lexer t) (store w) -> tinv w' t toks n.
Proof. intros (R & Hnd & Hd) E. split; [exact R|]. split; [intros D; destruct (Hnd D) as [A B]; split; [exact A|rewrite E; exact B]|exact Hd]. Qed.
Lemma interleave_inv ta tb : forall sched w a b na nb w' a' b',
  t_lexer a <> t_lexer b -> tinv w a ta na -> tinv w b tb nb -> interleave sched w a b = (w', a', b') ->
  tinv w' a' ta (na + count_occ Bool.bool_dec sched true) /\ tinv w' b' tb (nb + count_occ Bool.bool_dec sched false).
Proof.
  induction sched as [|s sched IH]; intros w a b na nb w' a' b' Hne Ia Ib H; cbn [interleave] in H.
  - inversion H; subst. cbn. rewrite !Nat.add_0_r. auto.
  - destruct s.
    + destruct (tfetch w a) as [w1 a1] eqn:T. destruct (tfetch_inv _ _ _ _ _ _ Ia T) as (Ia1 & La & Fr).
      destruct (IH w1 a1 b (S na) nb w' a' b') as [X Y]; try assumption; [congruence|apply (tinv_frame w); [exact Ib|apply Fr; congruence]|].
      cbn [count_occ]. destruct (Bool.bool_dec true true); [|congruence]. destruct (Bool.bool_dec true false); [discriminate|].
      split; [replace (na + S (count_occ Bool.bool_dec sched true)) with (S na + count_occ Bool.bool_dec sched true) by lia; exact X|exact Y].
    + destruct (tfetch w b) as [w1 b1] eqn:T. destruct (tfetch_inv _ _ _ _ _ _ Ib T) as (Ib1 & Lb & Fr).
      destruct (IH w1 a b1 na (S nb) w' a' b') as [X Y]; try assumption; [congruence|apply (tinv_frame w); [exact Ia|apply Fr; congruence]|].
      cbn [count_occ]. destruct (Bool.bool_dec false false); [|congruence]. destruct (Bool.bool_dec false true); [discriminate|].
      split; [exact X|replace (nb + S (count_occ Bool.bool_dec sched false)) with (S nb + count_occ Bool.bool_dec sched false) by lia; exact Y].
Qed.
(* under ANY schedule each thread has read a prefix of its own tokens - all of them once it has been scheduled often
   enough - and nothing else *)
Theorem threads_private w sa sb sched a b : two_threads true w sa sb sched = (a, b) ->
  t_read a = firstn (count_occ Bool.bool_dec sched true) (lex_tokens sa) /\
  t_read b = firstn (count_occ Bool.bool_dec sched false) (lex_tokens sb).
Proof.
  unfold two_threads, open_lexer. intros H.
  set (w1 := {| store := (next_id w, lex_tokens sa) :: store w; next_id := S (next_id w); global_lexer := global_lexer w |}) in *.
  set (w2 := {| store := (next_id w1, lex_tokens sb) :: store w1; next_id := S (next_id w1); global_lexer := global_lexer w1 |}) in *.
  destruct (interleave sched w2 _ _) as [[w' a'] b'] eqn:E. inversion H; subst.
  destruct (interleave_inv (lex_tokens sa) (lex_tokens sb) sched w2 {| t_lexer := next_id w; t_read := []; t_done := false |}
              {| t_lexer := next_id w1; t_read := []; t_done := false |} 0 0 w' a b) as [[Ra _] [Rb _]]; try exact E.
  - cbn. lia.
  - split; [reflexivity|]. split; [intros _; split; [lia|]|discriminate]. subst w2 w1. cbn [t_lexer store lookup next_id skipn].
    replace (Nat.eqb (S (next_id w)) (next_id w)) with false by (symmetry; apply Nat.eqb_neq; lia). rewrite Nat.eqb_refl. reflexivity.
  - split; [reflexivity|]. split; [intros _; split; [lia|]|discriminate]. subst w2 w1. cbn [t_lexer store lookup next_id skipn]. rewrite Nat.eqb_refl. reflexivity.
  - split; [exact Ra|exact Rb].
Qed.
Theorem threads_shared_refuted :
  let '(a, b) := two_threads false w_init [49; 43; 50]%Z [51; 42; 52]%Z [true; false; true; false; true; false; true; false] in
  t_read a <> lex_tokens [49; 43; 50]%Z /\ t_read b <> lex_tokens [51; 42; 52]%Z.
Proof. vm_compute. split; discriminate. Qed.

(* ---------- C02: retention ---------- *)
Theorem nothing_retained frames history : retained_after true frames history = 0.
Proof. unfold retained_after. induction history as [|s l IH] using rev_ind; [reflexivity|]. rewrite fold_left_app. reflexivity. Qed.
Theorem retention_without_release_refuted :
  exists frames history, forall n, retained_after false frames (concat (repeat history n)) = 12 * n.
Proof.
  exists (fun _ => 12), [[49; 47; 48]%Z]. induction n as [|n IH]; [reflexivity|].
  cbn [repeat concat]. unfold retained_after in *. cbn [app fold_left].
  assert (forall l a, fold_left (fun acc (_ : list Z) => acc + 12) l a = a + fold_left (fun acc (_ : list Z) => acc + 12) l 0) as G.
  { induction l as [|x l IHl]; intros a; cbn [fold_left]; [lia|]. rewrite IHl, (IHl (0 + 12)). lia. }
  rewrite G, IH. lia.
Qed.
Theorem generated_facts : sessions_gen_ok = true.
Proof. vm_compute. reflexivity. Qed.

(* ---------- C02: histories on one parser ---------- *)
From HX Require Import Model.Value Model.Interp.
Inductive hop := HSetVar (n : list Z) (v : value) | HSetFun (n : list Z) (b : behaviour) | HParse (s : list Z).
Definition bind (h : host) (o : hop) : host :=
  match o with
  | HSetVar n v => {| h_vars := (n, v) :: h_vars h; h_funs := h_funs h; h_cells := h_cells h; h_ranges := h_ranges h;
                      h_registry := h_registry h; h_varset := h_varset h; h_funset := h_funset h; h_oracle := h_oracle h |}
  | HSetFun n b => {| h_vars := h_vars h; h_funs := (n, b) :: h_funs h; h_cells := h_cells h; h_ranges := h_ranges h;
                      h_registry := h_registry h; h_varset := h_varset h; h_funset := h_funset h; h_oracle := h_oracle h |}
  | HParse _ => h
  end.
Definition token_eqb (a b : token) : bool := (tk a =? tk b)%Z && list_eqb (lexeme a) (lexeme b).
Fixpoint tokens_eqb (a b : list token) : bool :=
  match a, b with [], [] => true | x :: a', y :: b' => token_eqb x y && tokens_eqb a' b' | _, _ => false end.
Lemma tokens_eqb_refl a : tokens_eqb a a = true.
Proof.
  induction a as [|x a IH]; [reflexivity|]. cbn [tokens_eqb]. rewrite IH. unfold token_eqb. rewrite Z.eqb_refl.
  assert (list_eqb (lexeme x) (lexeme x) = true) as -> by (apply ComparatorProofs.list_eqb_eq; reflexivity). reflexivity.
Qed.
(* what each parse of the history returns: Some record when the evaluation read its own tokens, None when garbled *)
Fixpoint run_history (private : bool) (w : world) (h : host) (ops : list hop) : list (option (precord * list event)) :=
  match ops with
  | [] => []
  | HParse s :: r =>
      let '(w', read) := eval0 private w s in
      (if tokens_eqb read (lex_tokens s) then Some (parse_formula h s) else None) :: run_history private w' h r
  | o :: r => run_history private w (bind h o) r
  end.
(* the same history with every earlier evaluation deleted: a fresh parser with the same bindings *)
Fixpoint fresh_outcomes (h : host) (ops : list hop) : list (option (precord * list event)) :=
  match ops with
  | [] => []
  | HParse s :: r => Some (parse_formula h s) :: fresh_outcomes h r
  | o :: r => fresh_outcomes (bind h o) r
  end.
Theorem history_independent : forall ops w h, run_history true w h ops = fresh_outcomes h ops.
Proof.
  induction ops as [|o ops IH]; intros w h; [reflexivity|]. destruct o as [n v|n b|s]; cbn [run_history fresh_outcomes]; try apply IH.
  destruct (eval0 true w s) as [w' read] eqn:E. destruct (eval0_private _ _ _ _ E) as [_ ->]. rewrite tokens_eqb_refl. f_equal. apply IH.
Qed.
(* an evaluation is a function of text and bindings: inserting any evaluations anywhere earlier changes nothing *)
Corollary earlier_evaluations_irrelevant : forall pre s w h,
  last (run_history true w h (pre ++ [HParse s])) None = Some (parse_formula (fold_left bind pre h) s).
Proof.
  intros pre s w h. rewrite history_independent. revert h. induction pre as [|o pre IH]; intros h; [reflexivity|].
  destruct o as [n v|n b|t]; cbn [app fresh_outcomes fold_left bind]; try apply IH.
  specialize (IH h). destruct (fresh_outcomes h (pre ++ [HParse s])) eqn:F; [destruct pre; discriminate|exact IH].
Qed.
