(* Runner entry points: one number per executable model function.  The Python
   harness reads the "(* ENTRY n name *)" comments to build its name table. *)
From HX Require Import Model.Base Model.Cell Model.EmitterEntry Model.Serial Model.DateFns Model.Comparator Model.Value Model.Logic Model.Lookup Model.Text Model.Operators Model.ErrorFlow Model.Rounding Model.Radix Model.Aggregates Model.InterpEntry.

Definition dispatch (e : Z) (a : list Z) : list Z :=
  match e with
  | 1901 => e_col_l2i a    (* ENTRY 1901 col_l2i *)
  | 1902 => e_col_i2l a    (* ENTRY 1902 col_i2l *)
  | 1903 => e_row_l2i a    (* ENTRY 1903 row_l2i *)
  | 1904 => e_row_i2l a    (* ENTRY 1904 row_i2l *)
  | 1905 => e_extract a    (* ENTRY 1905 extract *)
  | 2001 => e_emitter a    (* ENTRY 2001 emitter *)
  | 1301 => e_serial a     (* ENTRY 1301 serial *)
  | 1302 => e_parse_serial a (* ENTRY 1302 parse_serial *)
  | 1401 => e_DATE a       (* ENTRY 1401 DATE *)
  | 1402 => e_TIME a       (* ENTRY 1402 TIME *)
  | 1403 => e_WEEKDAY a    (* ENTRY 1403 WEEKDAY *)
  | 1404 => e_DATEDIF a    (* ENTRY 1404 DATEDIF *)
  | 1405 => e_DAYS a       (* ENTRY 1405 DAYS *)
  | 1406 => e_EDATE a      (* ENTRY 1406 EDATE *)
  | 1407 => e_serial_fields a (* ENTRY 1407 serial_fields *)
  | 701 => e_compare a      (* ENTRY 701 compare *)
  | 1201 => e_logic a       (* ENTRY 1201 logic *)
  | 1801 => e_CHOOSE a      (* ENTRY 1801 CHOOSE *)
  | 1802 => e_INDEX a       (* ENTRY 1802 INDEX *)
  | 1803 => e_MATCH a       (* ENTRY 1803 MATCH *)
  | 1501 => e_text a        (* ENTRY 1501 text *)
  | 601 => e_arith a        (* ENTRY 601 arith *)
  | 801 => e_errflow a      (* ENTRY 801 errflow *)
  | 1701 => e_rounding a    (* ENTRY 1701 rounding *)
  | 1702 => e_radix a       (* ENTRY 1702 radix *)
  | 1101 => e_aggregate a   (* ENTRY 1101 aggregate *)
  | 401 => e_parse a        (* ENTRY 401 parse *)
  | 402 => e_lex a          (* ENTRY 402 lex *)
  | _ => [-999]
  end.
