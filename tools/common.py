# -*- coding: utf-8 -*-
"""Shared machinery of the hotxlfp verification checks.

Pipeline of one check run (see DESIGN.md section 2):
  snapshot /repo -> (gen) -> prove (make + Print Assumptions) -> build runner
  -> correspondence (extracted Coq model vs implementation) -> property oracle
  -> decide -> evidence/<id>.json, exit code.
This module is imported by the child process that already runs with
PYTHONPATH=<snapshot of /repo>, so `import hotxlfp` is the code under test.
"""
import fcntl
import hashlib
import json
import multiprocessing
import os
import random
import re
import subprocess
import sys
import time

VERIF = os.path.dirname(os.path.dirname(os.path.abspath(__file__)))
COQ = os.path.join(VERIF, 'coq')
OCAML = os.path.join(VERIF, 'ocaml')
RUNNER = os.path.join(OCAML, 'runner')
NCPU = min(16, os.cpu_count() or 4)


# --------------------------------------------------------------------------
# number syntax shared with ocaml/driver.ml
def zhex(n):
    return ('-%x' % -n) if n < 0 else ('%x' % n)


def unhex(s):
    return int(s, 16)


def enc_text(s):
    """text -> [len, cp, cp, ...]"""
    return [len(s)] + [ord(c) for c in s]


def dec_text(l, i=0):
    n = l[i]
    return ''.join(chr(c) for c in l[i + 1:i + 1 + n]), i + 1 + n


_ENTRIES = None


def entries():
    global _ENTRIES
    if _ENTRIES is None:
        _ENTRIES = {}
        for fn in ('Model/Entries.v',):
            txt = open(os.path.join(COQ, fn)).read()
            for m in re.finditer(r'\(\*\s*ENTRY\s+(\d+)\s+(\w+)\s*\*\)', txt):
                _ENTRIES[m.group(2)] = int(m.group(1))
    return _ENTRIES


def _run_chunk(lines):
    p = subprocess.run([RUNNER], input='\n'.join(lines) + '\n', capture_output=True, text=True)
    if p.returncode != 0:
        raise RuntimeError('model runner failed: %s' % p.stderr[-2000:])
    out = p.stdout.split('\n')
    if out and out[-1] == '':
        out.pop()
    if len(out) != len(lines):
        raise RuntimeError('model runner returned %d lines for %d cases' % (len(out), len(lines)))
    return [[unhex(x) for x in l.split()] for l in out]


def model_run(entry, cases, pool=None):
    """Run the extracted Coq model: cases is a list of int lists; returns a list of int lists."""
    e = zhex(entries()[entry])
    lines = [e + ' ' + ' '.join(zhex(x) for x in c) for c in cases]
    if not lines:
        return []
    n = len(lines)
    if n < 2000:
        return _run_chunk(lines)
    k = min(NCPU, (n + 1999) // 2000)
    size = (n + k - 1) // k
    chunks = [lines[i:i + size] for i in range(0, n, size)]
    own = pool is None
    if own:
        pool = multiprocessing.get_context('fork').Pool(len(chunks))
    try:
        res = pool.map(_run_chunk, chunks)
    finally:
        if own:
            pool.close()
            pool.join()
    return [r for c in res for r in c]


HANG = 'HANG'


class _Hang(BaseException):
    """Raised by the per-case alarm; a BaseException so that `except Exception` in the code under test
    (Parser.parse swallows ordinary exceptions) cannot eat it."""


def _alarm(*a):
    raise _Hang()


class _Guarded(object):
    def __init__(self, func, limit):
        self.func = func
        self.limit = limit

    def __call__(self, x):
        import signal
        signal.signal(signal.SIGALRM, _alarm)
        signal.setitimer(signal.ITIMER_REAL, self.limit)
        try:
            return self.func(x)
        except _Hang:
            return HANG
        finally:
            signal.setitimer(signal.ITIMER_REAL, 0)


class HangResult(list):
    """What pmap returns for an item that did not come back: an EMPTY list (so that callers that iterate over the
    violations of an item do not crash) that compares equal to the HANG marker (so that callers that test for it still do)."""

    def __eq__(self, other):
        return other == 'HANG' or isinstance(other, HangResult)

    def __ne__(self, other):
        return not self.__eq__(other)

    __hash__ = None


UNRESOLVED_HANGS = []


def pmap(func, items, limit=20.0, confirm=True, serial_below=64):
    """Parallel map over items with fork workers (implementation side).  Each item runs under an alarm of `limit` seconds.
    An item that does not return is run again alone, in this process, with a generous limit (a loaded pool or an expensive
    exact computation of the harness is not a hang); if it still does not return it yields a HangResult and is logged in
    UNRESOLVED_HANGS - run_property reports every logged hang that the property module did not handle itself."""
    items = list(items)
    g = _Guarded(func, limit)
    res = []
    hangs = 0
    if len(items) < serial_below:
        for x in items:
            res.append(g(x) if hangs < 32 else HANG)
            hangs += isinstance(res[-1], str) and res[-1] == HANG
    else:
        # in slices, so that a tree on which (almost) every evaluation hangs ends the sweep after a few dozen hangs
        # instead of waiting `limit` seconds for each of tens of thousands of items
        step = 256                      # slices grow geometrically while nothing hangs
        lo = 0
        with multiprocessing.get_context('fork').Pool(NCPU) as pool:
            while lo < len(items):
                part = items[lo:lo + step]
                lo += len(part)
                if hangs >= 32:
                    res.extend([HANG] * len(part))
                    continue
                out = pool.map(g, part, chunksize=max(1, min(256, len(part) // (NCPU * 8))))
                h = sum(1 for r in out if isinstance(r, str) and r == HANG)
                hangs += h
                res.extend(out)
                if h == 0:
                    step = min(step * 4, max(256, len(items) // 8))
    confirmed = 0
    for i, r in enumerate(res):
        if isinstance(r, str) and r == HANG:
            if confirm and confirmed < 4 and hangs < 32:
                confirmed += 1
                r = _Guarded(func, max(6 * limit, 90.0))(items[i])
            if isinstance(r, str) and r == HANG:
                if confirm and len(UNRESOLVED_HANGS) < 40:
                    UNRESOLVED_HANGS.append(repr(items[i])[:400])
                r = HangResult()
            res[i] = r
    return res


def confirm_hang(func, item, limit=12.0):
    """An item that hit the per-item time limit inside the loaded worker pool is run again alone, in this process, with a
    generous limit: only a call that still does not return is reported as non-terminating (a busy machine is not a hang)."""
    return _Guarded(func, limit)(item)


# --------------------------------------------------------------------------
# build steps
class BuildLock(object):
    def __enter__(self):
        self.f = open(os.path.join(VERIF, '.build.lock'), 'w')
        fcntl.flock(self.f, fcntl.LOCK_EX)
        return self

    def __exit__(self, *a):
        fcntl.flock(self.f, fcntl.LOCK_UN)
        self.f.close()


def sh(cmd, timeout, cwd=None):
    try:
        p = subprocess.run(cmd, shell=True, cwd=cwd, capture_output=True, text=True, timeout=timeout)
        return p.returncode, p.stdout + p.stderr
    except subprocess.TimeoutExpired as e:
        return 124, 'TIMEOUT after %ss: %s' % (timeout, cmd)


def coq_make(targets, timeout=2400):
    """Full .vo build of the given targets (never -vos).  Returns (ok, log)."""
    with BuildLock():
        rc, out = sh('tools/mkproject.sh', 120, cwd=VERIF)
        if rc != 0:
            return False, out
        rc, log = sh('make -j%d %s' % (NCPU, ' '.join(targets)), timeout, cwd=COQ)
        # extraction output lands in coq/: move it next to the driver
        for f in ('model.ml', 'model.mli'):
            src = os.path.join(COQ, f)
            if os.path.exists(src):
                os.replace(src, os.path.join(OCAML, f))
        return rc == 0, log


def build_runner():
    """Extract the model (fresh Gen included) and compile the OCaml runner. Returns (ok, log)."""
    ok, log = coq_make(['Extract/Extract.vo'])
    if not ok:
        return False, log
    with BuildLock():
        ml = os.path.join(OCAML, 'model.ml')
        if not os.path.exists(ml):
            try:
                os.remove(os.path.join(COQ, 'Extract/Extract.vo'))
            except OSError:
                pass
    if not os.path.exists(os.path.join(OCAML, 'model.ml')):
        ok, log = coq_make(['Extract/Extract.vo'])
        if not ok or not os.path.exists(os.path.join(OCAML, 'model.ml')):
            return False, log + '\nextraction produced no model.ml'
    with BuildLock():
        h = hashlib.sha256()
        for f in ('model.ml', 'model.mli', 'driver.ml'):
            h.update(open(os.path.join(OCAML, f), 'rb').read())
        dig = h.hexdigest()
        hf = os.path.join(OCAML, 'runner.hash')
        if os.path.exists(RUNNER) and os.path.exists(hf) and open(hf).read() == dig:
            return True, 'runner up to date'
        rc, out = sh('ocamlfind ocamlopt -O2 -w -a model.mli model.ml driver.ml -o runner 2>&1 || '
                     'ocamlfind ocamlopt -w -a model.mli model.ml driver.ml -o runner', 600, cwd=OCAML)
        if rc != 0:
            return False, out
        open(hf, 'w').write(dig)
        return True, out


THEOREM_RE = re.compile(r'^\s*(Theorem|Lemma|Corollary|Example|Fact|Remark|Proposition)\s+([A-Za-z0-9_\']+)', re.M)


def count_obligations(files):
    names = []
    for f in files:
        p = os.path.join(COQ, f)
        if os.path.exists(p):
            names += [f + ':' + m.group(2) for m in THEOREM_RE.finditer(open(p).read())]
    return names


def locate_failure(log):
    """Find 'File "./X.v", line N' + Error in a make log; name the enclosing statement."""
    m = None
    for m in re.finditer(r'File "\./([^"]+)", line (\d+), characters [^\n]*\n(Error[^\n]*(?:\n[^\n]+){0,6})', log):
        break
    if not m:
        return None
    f, line, err = m.group(1), int(m.group(2)), m.group(3)
    stmt = None
    try:
        lines = open(os.path.join(COQ, f)).read().split('\n')[:line]
        for l in reversed(lines):
            mm = re.match(r'\s*(Theorem|Lemma|Corollary|Example|Fact|Definition|Fixpoint)\s+([A-Za-z0-9_\']+)', l)
            if mm:
                stmt = mm.group(2)
                break
    except OSError:
        pass
    return {'file': f, 'line': line, 'statement': stmt, 'error': err.strip()[:600]}


def audit_sources():
    """The development declares no axiom and switches off no check: every .v file is scanned on every run (fail-closed).
    Returns a list of offending (file, line, text)."""
    bad = []
    allowed_axioms = set()
    for dirpath, dirs, files in os.walk(COQ):
        for fn in files:
            if not fn.endswith('.v'):
                continue
            path = os.path.join(dirpath, fn)
            depth = 0
            in_comment = 0
            for i, line in enumerate(open(path, encoding='utf-8', errors='replace'), 1):
                t = line.strip()
                code = re.sub(r'\(\*.*?\*\)', '', t)            # one-line comments
                if re.match(r'Section\s+\w+\s*\.', code):
                    depth += 1
                elif re.match(r'End\s+\w+\s*\.', code):
                    depth = max(0, depth - 1)
                if re.match(r'(Axiom|Axioms|Parameter|Parameters|Conjecture|Conjectures)\b', code) or \
                        re.search(r'\b(Admitted|Admit Obligations)\b|\badmit\s*\.|\bgive_up\b', code) or \
                        re.search(r'Unset\s+(Guard Checking|Positivity Checking|Universe Checking)|bypass_check|type-in-type|impredicative-set', code) or \
                        (depth == 0 and re.match(r'(Variable|Variables|Hypothesis|Hypotheses|Context)\b', code)):
                    bad.append((os.path.relpath(path, COQ), i, t[:120]))
    proj = os.path.join(COQ, '_CoqProject')
    if os.path.exists(proj) and re.search(r'type-in-type|impredicative-set', open(proj).read()):
        bad.append(('_CoqProject', 0, 'forbidden option'))
    return bad


def prove(prop_id, coq_files, scratch, thorough=False):
    """Build Properties/<id>.vo (full cone), re-run the property file to capture Print Assumptions."""
    names = count_obligations(coq_files)
    target = 'Properties/%s.vo' % prop_id
    t0 = time.time()
    ok, log = coq_make([target])
    res = {'ok': ok, 'obligations': len(names), 'discharged': 0, 'failure': None,
           'checker_cmd': 'make -C /verif/coq %s  (coq_makefile project, full .vo build, Coq 8.16.1); '
                          'coqc Properties/%s.v for Print Assumptions' % (target, prop_id),
           'assumptions': [], 'axioms': [], 'make_s': None}
    offending = audit_sources()
    if offending:
        ok = False
        res['ok'] = False
        res['failure'] = {'file': offending[0][0], 'statement': 'source audit (axiom / admitted / checks switched off / variable outside a section)',
                          'error': repr(offending[:5])}
        res['make_s'] = round(time.time() - t0, 1)
        return res
    if not ok:
        res['failure'] = locate_failure(log) or {'file': None, 'statement': None, 'error': log[-800:]}
        # discharged = statements in files that did compile
        done = 0
        for f in coq_files:
            vo = os.path.join(COQ, f[:-2] + '.vo')
            src = os.path.join(COQ, f)
            if os.path.exists(vo) and os.path.getmtime(vo) >= os.path.getmtime(src) and \
                    (res['failure'].get('file') != f):
                done += len(count_obligations([f]))
        res['discharged'] = min(done, max(0, len(names) - 1))
        res['make_s'] = round(time.time() - t0, 1)
        return res
    res['discharged'] = len(names)
    rc, out = sh('coqc -Q . HX -w none -noglob Properties/%s.v -o %s/%s.vo' % (prop_id, scratch, prop_id), 900, cwd=COQ)
    if rc != 0:
        res['ok'] = False
        res['failure'] = {'file': 'Properties/%s.v' % prop_id, 'statement': None, 'error': out[-800:]}
        res['discharged'] = 0
        return res
    closed = out.count('Closed under the global context')
    axioms = sorted(set(re.findall(r'^([A-Za-z_][A-Za-z0-9_.\']*)\s*:', out, re.M)))
    res['assumptions'] = ['%d theorems: Closed under the global context' % closed] + \
                         (['axioms used: ' + ', '.join(axioms)] if axioms else [])
    res['axioms'] = axioms
    if thorough:
        rc, out = sh('coqchk -silent -o -Q . HX HX.Properties.%s' % prop_id, 1800, cwd=COQ)
        tail = out.strip().split('\n')[-25:]
        res['coqchk'] = {'rc': rc, 'tail': tail}
        if rc != 0:
            res['ok'] = False
            res['failure'] = {'file': 'Properties/%s.vo' % prop_id, 'statement': 'coqchk', 'error': out[-800:]}
    res['make_s'] = round(time.time() - t0, 1)
    return res


# --------------------------------------------------------------------------
class Result(object):
    """What an exploration covered and found."""

    def __init__(self):
        self.evaluations = 0
        self.nontrivial = set()      # keys of distinct non-trivial cases
        self.nontrivial_extra = 0    # counted without keeping keys (large sweeps)
        self.rule = ''
        self.samples = []
        self.exhaustive = False
        self.disagreements = []      # model vs implementation
        self.violations = []         # property violated on the implementation
        self.compared = 0            # model-vs-implementation comparisons made
        self.extra = {}

    def sample(self, x, limit=12):
        if len(self.samples) < limit:
            self.samples.append(x)

    def disagree(self, entry, case, model, impl):
        if len(self.disagreements) < 200:
            self.disagreements.append({'entry': entry, 'case': case, 'model': model, 'impl': impl})
        else:
            self.extra['disagreements_truncated'] = self.extra.get('disagreements_truncated', 0) + 1

    def violate(self, case, what, cls=None, expected=None, observed=None):
        # the cap is per class: a recorded known finding must not crowd out an unlisted violation
        self._per_class = getattr(self, '_per_class', {})
        self._per_class[cls] = self._per_class.get(cls, 0) + 1
        if self._per_class[cls] <= 500:
            self.violations.append({'case': case, 'what': what, 'class': cls,
                                    'expected': expected, 'observed': observed})
        else:
            self.extra['violations_truncated'] = self.extra.get('violations_truncated', 0) + 1


class Ctx(object):
    def __init__(self, prop_id, tier, seed, scratch):
        self.id = prop_id
        self.tier = tier
        self.thorough = tier == 'thorough'
        self.seed = seed
        self.scratch = scratch
        self.rng = random.Random(seed * 1000003 + int(prop_id[1:]))
        self.model_ok = True

    def model(self, entry, cases):
        return model_run(entry, cases)


def compare(R, ctx, entry, cases, enc_case, impl_fn, key=None, eq=None, limit=20.0, eqc=None):
    """Correspondence of one model entry point: run the implementation (forked workers) and the extracted
    model on the same cases; record disagreements.  Returns the implementation's results."""
    cases = list(cases)
    impl = pmap(impl_fn, cases, limit)
    R.evaluations += len(cases)
    if ctx.model_ok and cases:
        model = ctx.model(entry, [enc_case(c) for c in cases])
        for c, m, i in zip(cases, model, impl):
            R.compared += 1
            if not (eqc(c, m, i) if eqc is not None else (eq(m, i) if eq is not None else m == i)):
                R.disagree(entry, c, m, i)
    for c in cases[:2]:
        R.sample({'entry': entry, 'case': c})
    R.nontrivial_extra += len(set(map(key, cases))) if key is not None else len(cases)
    R.extra.setdefault('input_distribution', {})
    R.extra['input_distribution'][entry] = R.extra['input_distribution'].get(entry, 0) + len(cases)
    return impl


class Catch(object):
    """Picklable wrapper: calls f(case); an exception escaping f becomes the marker `exc`
    (Parser.parse maps every exception of a built-in to #ERROR!)."""

    def __init__(self, f, exc=None):
        self.f = f
        self.exc = exc

    def __call__(self, c):
        try:
            return self.f(c)
        except Exception as e:  # noqa
            return self.exc if self.exc is not None else ['EXC', type(e).__name__]


def canon(v):
    """Canonical JSON-able form of a value returned by the implementation."""
    import datetime
    from hotxlfp.formulas.error import XLError
    if isinstance(v, XLError):
        return ['E', str(v)]
    if isinstance(v, bool):
        return ['B', int(v)]
    if isinstance(v, int):
        return ['I', v]
    if isinstance(v, float):
        return ['F', repr(v)]
    if isinstance(v, str):
        return ['T', v]
    if v is None:
        return ['N']
    if isinstance(v, datetime.datetime):
        return ['D', v.year, v.month, v.day, v.hour, v.minute, v.second, v.microsecond]
    if isinstance(v, (list, tuple)):
        return ['L'] + [canon(x) for x in v]
    if isinstance(v, complex):
        return ['C', repr(v)]
    return ['O', type(v).__name__]


ERR_CODES = ['#ERROR!', '#DIV/0!', '#NAME?', '#N/A', '#NULL!', '#NUM!', '#REF!', '#VALUE!', '#GETTING_DATA']


def enc_value(v):
    """Python value -> integer list understood by Model/Value.v dec_value."""
    import datetime
    from fractions import Fraction
    from hotxlfp.formulas.error import XLError
    if isinstance(v, XLError):
        return [5, ERR_CODES.index(str(v))]
    if isinstance(v, bool):
        return [2, int(v)]
    if isinstance(v, int):
        return [0, v]
    if isinstance(v, float):
        f = Fraction(v)
        return [1, f.numerator, f.denominator]
    if isinstance(v, str):
        return [3, len(v)] + [ord(c) for c in v]
    if v is None:
        return [4]
    if isinstance(v, datetime.datetime):
        return [6, v.year, v.month, v.day, v.hour, v.minute, v.second, v.microsecond]
    if isinstance(v, (list, tuple)):
        out = [7, len(v)]
        for x in v:
            out += enc_value(x)
        return out
    raise TypeError('cannot encode %r' % (v,))


def dec_value(l, i=0):
    """integer list (Model/Value.v enc_value) -> canonical tuple, next index"""
    from fractions import Fraction
    t = l[i]
    if t == 0:
        return ('I', l[i + 1]), i + 2
    if t == 1:
        return ('F', Fraction(l[i + 1], l[i + 2])), i + 3
    if t == 2:
        return ('B', l[i + 1]), i + 2
    if t == 3:
        n = l[i + 1]
        return ('T', ''.join(chr(c) for c in l[i + 2:i + 2 + n])), i + 2 + n
    if t == 4:
        return ('N',), i + 1
    if t == 5:
        return ('E', ERR_CODES[l[i + 1]]), i + 2
    if t == 6:
        return ('D',) + tuple(l[i + 1:i + 8]), i + 8
    if t == 7:
        n = l[i + 1]
        i += 2
        xs = []
        for _ in range(n):
            x, i = dec_value(l, i)
            xs.append(x)
        return ('L', tuple(xs)), i
    raise ValueError('bad value encoding %r at %d' % (l, i))


def canon_py(v):
    """Python value -> the same canonical tuples as dec_value"""
    import datetime
    from fractions import Fraction
    from hotxlfp.formulas.error import XLError
    if isinstance(v, XLError):
        return ('E', str(v))
    if isinstance(v, bool):
        return ('B', int(v))
    if isinstance(v, int):
        return ('I', v)
    if isinstance(v, float):
        if v != v or v in (float('inf'), float('-inf')):
            return ('F', repr(v))
        return ('F', Fraction(v))
    if isinstance(v, str):
        return ('T', v)
    if v is None:
        return ('N',)
    if isinstance(v, datetime.datetime):
        return ('D', v.year, v.month, v.day, v.hour, v.minute, v.second, v.microsecond)
    if isinstance(v, (list, tuple)):
        return ('L', tuple(canon_py(x) for x in v))
    return ('O', type(v).__name__, repr(v))


def dec_outcome(l):
    """Model outcome -> ('R', value) | ('RAISE', code) | ('EXC',)"""
    if l[0] == 0:
        return ('R', dec_value(l, 1)[0])
    if l[0] == 1:
        return ('RAISE', ERR_CODES[l[1]])
    return ('EXC',)


def thaw(x):
    """Frozen case value -> Python value: ('ERR', code) becomes the XLError singleton (a pickled XLError would
    arrive in the worker as a fresh instance, and the code compares error objects by identity)."""
    from hotxlfp.formulas import error
    if isinstance(x, tuple) and len(x) == 2 and x[0] == 'ERR':
        return error.from_message(x[1])
    if isinstance(x, list):
        return [thaw(y) for y in x]
    if isinstance(x, tuple):
        return tuple(thaw(y) for y in x)
    return x


def ERR(code):
    return ('ERR', code)


def call_outcome(fn, args):
    """Call a built-in directly the way Parser.call_function does; canonical outcome."""
    from hotxlfp.formulas.error import XLError
    try:
        return ('R', canon_py(fn(*args)))
    except XLError as e:
        return ('RAISE', str(e))
    except Exception:  # noqa - mapped to #ERROR! by Parser.parse
        return ('EXC',)


_PARSER = None


def ev(formula, variables=None, functions=None, fresh=False):
    """Evaluate a formula on the implementation; returns ('R', canonical value) or ('E', code) or ('X', exc name)."""
    global _PARSER
    import hotxlfp
    if fresh or variables or functions or _PARSER is None:
        p = hotxlfp.Parser()
        if not (variables or functions or fresh):
            _PARSER = p
    else:
        p = _PARSER
    for k, v in (variables or {}).items():
        p.set_variable(k, v)
    for k, v in (functions or {}).items():
        p.set_function(k, v)
    try:
        r = p.parse(formula)
    except Exception as e:  # noqa - parse must never raise (C01)
        return ('X', type(e).__name__)
    if r['error'] is not None:
        return ('E', r['error'])
    return ('R', canon(r['result']))


def ev_raw(formula, variables=None):
    import hotxlfp
    p = hotxlfp.Parser()
    for k, v in (variables or {}).items():
        p.set_variable(k, v)
    return p.parse(formula)


def load_known(prop_id):
    p = os.path.join(VERIF, 'known_findings.json')
    if not os.path.exists(p):
        return []
    return [e for e in json.load(open(p)) if e.get('property') == prop_id]


def jsonable(x):
    try:
        return json.loads(json.dumps(x, default=repr))
    except (TypeError, ValueError):
        return repr(x)


def write_replay(prop_id, kind, payload):
    d = os.path.join(VERIF, 'replays')
    os.makedirs(d, exist_ok=True)
    body = dict(payload)
    body.update({'property': prop_id, 'kind': kind,
                 'replay_cmd': './check %s --replay <this file>' % prop_id})
    txt = json.dumps(body, indent=1, sort_keys=True, default=repr)
    name = '%s-%s-%s.json' % (prop_id, kind, hashlib.sha1(txt.encode()).hexdigest()[:10])
    path = os.path.join(d, name)
    open(path, 'w').write(txt)
    return path


BASE_TRUST = [
    'Coq 8.16.1 kernel; vm_compute used for finite certificates/sweeps; no native_compute',
    'no Axiom/Parameter/Admitted in the development (grep-checked); Print Assumptions output recorded per run',
    'extraction: ExtrOcamlBasic only (bool, option, unit, list, prod, sumbool to OCaml natives; andb/orb inlined); '
    'Z/positive/nat kept as extracted inductives; no Extract Constant of our own; OCaml 4.13.1',
    'ocaml/driver.ml numeral reader/printer and tools/ Python harness (generators, canonicalisers, oracles)',
    'the hand-written model is tied to the code only by the correspondence run of this check',
]


def run_property(mod, tier, seed, scratch):
    t0 = time.time()
    pid = mod.ID
    ctx = Ctx(pid, tier, seed, scratch)
    notes = []
    # ---- gen
    gen_info = None
    if hasattr(mod, 'gen'):
        gen_info = mod.gen(ctx)
    # ---- prove
    proof = prove(pid, mod.COQ_FILES, scratch, thorough=ctx.thorough and getattr(mod, 'COQCHK', True))
    # ---- runner
    rok, rlog = build_runner()
    ctx.model_ok = rok
    if not rok:
        notes.append('model runner could not be built: ' + rlog[-500:])
    # ---- correspondence + oracle
    res = mod.explore(ctx)
    # ---- evaluations that never returned and that the property module did not account for itself
    for h in UNRESOLVED_HANGS[:20]:
        res.violate({'hang': h}, 'an evaluation did not return within the time limit (run again alone with 6x the limit)', None,
                    'returns', 'no return: ' + h[:200])
    # ---- known findings
    known = [e for e in load_known(pid) if e.get('status') == 'known']
    known_hit = {}
    unlisted = []
    for v in res.violations:
        hit = None
        for e in known:
            if (e.get('class') and e.get('class') == v.get('class')) or \
                    (e.get('witness') is not None and e.get('witness') == v.get('case')):
                hit = e
                break
        if hit is not None:
            known_hit.setdefault(hit['id'], [hit, 0])[1] += 1
        else:
            unlisted.append(v)
    # make sure each known witness is re-examined even if the stream missed it
    for e in known:
        if e['id'] not in known_hit and hasattr(mod, 'check_case'):
            vs = mod.check_case(e['witness'])
            if vs:
                known_hit[e['id']] = [e, len(vs)]
            else:
                notes.append('known finding %s no longer reproduces' % e['id'])
    for kid, (e, n) in sorted(known_hit.items()):
        print('KNOWN-FINDING: property=%s %s (witness %s; %d case(s) this run)' %
              (pid, e['what'], json.dumps(e['witness'], default=repr), n))
    # ---- decide
    exit_code = 0
    broken = (not proof['ok']) or bool(res.disagreements) or (not rok)
    searched = None
    if not unlisted and broken and hasattr(mod, 'search'):
        searched = mod.search(ctx, proof, res)
        for v in searched.violations:
            if not any((e.get('class') and e.get('class') == v.get('class')) or e.get('witness') == v.get('case')
                       for e in known):
                unlisted.append(v)
        res.evaluations += searched.evaluations
    if unlisted:
        v = unlisted[0]
        path = write_replay(pid, 'input', {'case': jsonable(v['case']), 'what': v['what'],
                                           'expected': jsonable(v.get('expected')),
                                           'observed': jsonable(v.get('observed')),
                                           'other_failing_cases': [jsonable(x['case']) for x in unlisted[1:20]],
                                           'proof_ok': proof['ok'],
                                           'disagreements': jsonable(res.disagreements[:5])})
        print('VIOLATION property=%s replay=%s' % (pid, path))
        exit_code = 1
    elif broken:
        payload = {'proof_ok': proof['ok'], 'failure': proof['failure'],
                   'runner_ok': rok,
                   'disagreements': jsonable(res.disagreements[:20]),
                   'what': 'the property is no longer shown to hold: ' +
                           ('theorem/obligation %s in %s does not check' % (
                               (proof['failure'] or {}).get('statement'), (proof['failure'] or {}).get('file'))
                            if not proof['ok'] else
                            ('model runner does not build' if not rok else
                             'correspondence entry %s disagrees with the implementation' %
                             res.disagreements[0]['entry']))}
        path = write_replay(pid, 'obligation', payload)
        print('VIOLATION property=%s replay=%s no-failing-input-found' % (pid, path))
        exit_code = 1
    # ---- evidence
    nontrivial = len(res.nontrivial) + res.nontrivial_extra
    cov = {
        'obligations': proof['obligations'],
        'discharged': proof['discharged'],
        'checker_cmd': proof['checker_cmd'],
        'trusted_base': BASE_TRUST + list(getattr(mod, 'TRUSTED', [])) + proof['assumptions'],
        'evaluations': res.evaluations,
        'distinct_nontrivial': nontrivial,
        'rule': res.rule,
        'samples': [jsonable(s) for s in res.samples] or ['(none)'],
        'exhaustive': bool(res.exhaustive),
        'model_vs_impl_comparisons': res.compared,
        'disagreements_checked': len(res.disagreements),
        'explanation': getattr(mod, 'EXPLANATION', ''),
        'proof_ok': proof['ok'],
        'proof_failure': proof['failure'],
        'proof_build_s': proof['make_s'],
        'known_findings_reproduced': sorted(known_hit.keys()),
        'notes': notes,
    }
    if gen_info is not None:
        cov['generated'] = gen_info
    if 'coqchk' in proof:
        cov['coqchk'] = proof['coqchk']
    cov.update(res.extra)
    ev = {
        'property_id': pid, 'tier': tier, 'seed': seed, 'level': 'proof',
        'coverage': cov,
        'assumptions': list(getattr(mod, 'ASSUMPTIONS', [])),
        'wall_s': round(time.time() - t0, 2),
        'violations': len(unlisted) if unlisted else (1 if broken else 0),
    }
    evdir = os.path.join(VERIF, 'evidence')
    if os.environ.get('VERIF_NO_EVIDENCE'):      # mutation trials (tools/seedtest.sh) must not overwrite the evidence
        evdir = scratch
    os.makedirs(evdir, exist_ok=True)
    with open(os.path.join(evdir, pid + '.json'), 'w') as f:
        json.dump(ev, f, indent=1, sort_keys=True, default=repr)
    print('%s tier=%s seed=%d: proof %s (%d/%d obligations), %d evaluations, %d comparisons, '
          '%d disagreements, %d unlisted violations, %.1fs' %
          (pid, tier, seed, 'ok' if proof['ok'] else 'BROKEN', proof['discharged'], proof['obligations'],
           res.evaluations, res.compared, len(res.disagreements), len(unlisted), time.time() - t0))
    return exit_code


def run_replay(mod, path):
    body = json.load(open(path))
    print('replay of %s (%s): %s' % (body.get('property'), body.get('kind'), body.get('what')))
    if body.get('kind') == 'obligation':
        print(json.dumps(body, indent=1))
        print('re-run ./check %s to re-check the obligation against the current tree' % mod.ID)
        return 0
    vs = mod.check_case(body['case'])
    print('case: %s' % json.dumps(body['case'], default=repr))
    if vs:
        for v in vs:
            print('STILL FAILS: %s\n  expected: %r\n  observed: %r' % (v['what'], v.get('expected'), v.get('observed')))
        return 1
    print('holds on the current tree')
    return 0
