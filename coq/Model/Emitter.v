(* Model of hotxlfp/tinyemitter.py (property C20).
   A history is a list of top-level operations; callbacks are *scripts* (lists of
   operations run when the callback is called), so listeners that subscribe,
   unsubscribe or emit during delivery are inside the model.  Python's call stack
   is a worklist: emit pushes one delivery item per listener of the snapshot
   (`self._e[name][:]`), a delivery pushes the callback's script in front.
   Every step appends one event to a linear trace. *)
From Coq Require Export List Arith Bool.
Export ListNotations.

(* sid: identity of the subscription (the Listener tuple / the one-time wrapper);
   fn: identity of the user callback; lctx: identity of the bound context *)
Record listener := L { sid : nat; fn : nat; lctx : nat; once : bool }.

Inductive op :=
| On (n f c : nat) | Once (n f c : nat) | Off (n : nat) (f : option nat) | Emit (n a : nat).

Inductive ev :=
| ESub (n : nat) (l : listener)
| EOff (n : nat) (f : option nat)
| EEmit (eid n a : nat) (snapshot : list listener)
| EDeliver (eid n : nat) (l : listener) (a : nat)    (* the user callback is called *)
| ESkip (eid n : nat) (l : listener) (a : nat)       (* one-time wrapper called again: returns at once *)
| EEnd (eid : nat).

(* d = depth of the Python call stack in callbacks (scripts may depend on it) *)
Inductive item := IOp (d : nat) (o : op) | IDel (d eid n : nat) (l : listener) (a : nat) | IEndI (eid : nat).

Record state := St { tab : nat -> list listener; next : nat; fired : list nat }.

Definition set_tab (t : nat -> list listener) (n : nat) (v : list listener) : nat -> list listener :=
  fun m => if m =? n then v else t m.

Definition init : state := St (fun _ => []) 0 [].

Section Machine.
Variable script : nat -> nat -> list op.   (* callback id -> depth -> what it does *)

Definition step (st : state) (it : item) : state * list item * ev :=
  match it with
  | IOp d (On n f c) => let l := L (next st) f c false in
      (St (set_tab (tab st) n (tab st n ++ [l])) (S (next st)) (fired st), [], ESub n l)
  | IOp d (Once n f c) => let l := L (next st) f c true in
      (St (set_tab (tab st) n (tab st n ++ [l])) (S (next st)) (fired st), [], ESub n l)
  | IOp d (Off n None) => (St (set_tab (tab st) n []) (next st) (fired st), [], EOff n None)
  | IOp d (Off n (Some f)) =>
      (St (set_tab (tab st) n (filter (fun l => negb (fn l =? f)) (tab st n))) (next st) (fired st),
       [], EOff n (Some f))
  | IOp d (Emit n a) => let eid := next st in
      (St (tab st) (S (next st)) (fired st),
       map (fun l => IDel (S d) eid n l a) (tab st n) ++ [IEndI eid], EEmit eid n a (tab st n))
  | IDel d eid n l a =>
      if once l then
        if existsb (Nat.eqb (sid l)) (fired st) then (st, [], ESkip eid n l a)
        else (St (set_tab (tab st) n (filter (fun x => negb (sid x =? sid l)) (tab st n)))
                 (next st) (sid l :: fired st),
              map (IOp d) (script (fn l) d), EDeliver eid n l a)
      else (st, map (IOp d) (script (fn l) d), EDeliver eid n l a)
  | IEndI eid => (st, [], EEnd eid)
  end.

Fixpoint run (fuel : nat) (st : state) (work : list item) (tr : list ev) : option (state * list ev) :=
  match fuel with
  | O => None
  | S k => match work with
           | [] => Some (st, tr)
           | it :: w => let '(st', push, e) := step st it in run k st' (push ++ w) (tr ++ [e])
           end
  end.

Definition run_history (fuel : nat) (ops : list op) : option (state * list ev) :=
  run fuel init (map (IOp 0) ops) [].
End Machine.

(* ---------- history-based specification: who is subscribed, from the trace alone ---------- *)
Definition upd_live (n : nat) (acc : list listener) (e : ev) : list listener :=
  match e with
  | ESub n' l => if n' =? n then acc ++ [l] else acc
  | EOff n' None => if n' =? n then [] else acc
  | EOff n' (Some f) => if n' =? n then filter (fun l => negb (fn l =? f)) acc else acc
  | EDeliver _ n' l _ => if (n' =? n) && once l then filter (fun x => negb (sid x =? sid l)) acc else acc
  | _ => acc
  end.
Definition live (tr : list ev) (n : nat) : list listener := fold_left (upd_live n) tr [].

Definition upd_once (acc : list nat) (e : ev) : list nat :=
  match e with EDeliver _ _ l _ => if once l then sid l :: acc else acc | _ => acc end.
Definition delivered_once (tr : list ev) : list nat := fold_left upd_once tr [].

(* what an emit delivered, in order: (name, listener, args) of its EDeliver/ESkip events *)
Definition proj1 (eid : nat) (e : ev) : list (nat * listener * nat) :=
  match e with
  | EDeliver eid' n l a => if eid' =? eid then [(n, l, a)] else []
  | ESkip eid' n l a => if eid' =? eid then [(n, l, a)] else []
  | _ => []
  end.
Definition proj (tr : list ev) (eid : nat) : list (nat * listener * nat) := flat_map (proj1 eid) tr.

(* the user-visible call log: (callback, args, bound context) *)
Definition calls (tr : list ev) : list (nat * nat * nat) :=
  flat_map (fun e => match e with EDeliver _ _ l a => [(fn l, a, lctx l)] | _ => [] end) tr.
