# -*- coding: utf-8 -*-
"""C19 - cell labels <-> indices.  Model: coq/Model/Cell.v.  Theorems: Properties/C19.v."""
import itertools
import re
import string

from common import Result, enc_text, dec_text, pmap

ID = 'C19'
COQ_FILES = ['Properties/C19.v', 'Proofs/CellProofs.v', 'Proofs/Digits.v']
TRUSTED = [
    'modelled, not verified: Python str.upper() restricted to ASCII input, int() on ASCII digit strings, '
    're on LABEL_EXTRACT_REGEXP (hand recogniser; its agreement with the regex is checked by the malformed stream)',
]
EXPLANATION = ('Unbounded Coq theorems (round trips, injectivity/surjectivity, shortlex order, decomposition/'
               'recomposition, non-labels -> nothing) over Model/Cell.v; the model is tied to helper/cell.py by '
               'an exhaustive correspondence over all 475254 column labels of 1-4 letters in both directions, '
               'rows, all $ patterns and a malformed stream; an independent oracle checks the property '
               'directly on the implementation.')
ASSUMPTIONS = ['column labels given to column_label_to_index are ASCII (non-ASCII upper-casing is outside the model)']

UP = string.ascii_uppercase
LABEL_RE = re.compile(r'\$?[A-Za-z]+\$?[1-9][0-9]*')          # the property's notion of a cell label
LEADING_ZERO_RE = re.compile(r'\$?[A-Za-z]+\$?0[0-9]*')         # known finding class


def all_labels(maxlen):
    for n in range(1, maxlen + 1):
        for t in itertools.product(UP, repeat=n):
            yield ''.join(t)


# ---------------- implementation side (runs in forked workers) ----------------
def _impl_col_l2i(s):
    from hotxlfp.helper import cell
    return [cell.column_label_to_index(s)]


def _impl_col_i2l(n):
    from hotxlfp.helper import cell
    return enc_text(cell.column_index_to_label(n))


def _impl_row_l2i(s):
    from hotxlfp.helper import cell
    return [cell.row_label_to_index(s)]


def _impl_row_i2l(n):
    from hotxlfp.helper import cell
    return enc_text(cell.row_index_to_label(n))


def _enc_parsed(p):
    return [p.index, 1 if p.is_absolute else 0] + enc_text(p.label)


def _impl_extract(s):
    from hotxlfp.helper import cell
    try:
        r = cell.extract_label(s)
    except Exception as e:  # noqa
        return ['EXC', type(e).__name__]
    if r == []:
        return [0]
    row, col = r
    return [1] + _enc_parsed(row) + _enc_parsed(col) + enc_text(cell.to_label(row, col))


def _oracle_label_block(block):
    """Property oracle for a block of consecutive shortlex labels: (start_index, [labels])."""
    from hotxlfp.helper import cell
    start, labels = block
    bad = []
    for k, L in enumerate(labels):
        i = cell.column_label_to_index(L)
        if i != start + k:
            bad.append((L, 'index of %s is %r, shortlex position is %d' % (L, i, start + k)))
            continue
        if cell.column_label_to_index(L.lower()) != i:
            bad.append((L, 'lower-case spelling maps elsewhere'))
        back = cell.column_index_to_label(i)
        if back != L:
            bad.append((L, 'index %d maps back to %r' % (i, back)))
    return bad


def check_label(s):
    """Oracle on one candidate cell-label string; returns list of (what, cls, expected, observed)."""
    from hotxlfp.helper import cell
    out = []
    try:
        parts = cell.extract_label(s)
    except Exception as e:  # noqa
        return [('extract_label raised %s' % type(e).__name__, None, 'a decomposition or []', repr(e))]
    if LABEL_RE.fullmatch(s):
        if parts == []:
            return [('a cell label decomposes to nothing', None, 'row and column parts', [])]
        row, col = parts
        m = re.fullmatch(r'(\$?)([A-Za-z]+)(\$?)([0-9]+)', s)
        exp_col_abs, letters, exp_row_abs, digits = m.group(1) == '$', m.group(2), m.group(3) == '$', m.group(4)
        if row.is_absolute != exp_row_abs or col.is_absolute != exp_col_abs:
            out.append(('absolute markers misreported', None, (exp_row_abs, exp_col_abs),
                        (row.is_absolute, col.is_absolute)))
        if row.index != int(digits) - 1:
            out.append(('row index wrong', None, int(digits) - 1, row.index))
        # independent bijective base-26 value
        v = 0
        for ch in letters.upper():
            v = v * 26 + (ord(ch) - 64)
        if col.index != v - 1:
            out.append(('column index wrong', None, v - 1, col.index))
        back = cell.to_label(row, col)
        if back != s.upper():
            out.append(('recomposed label differs', None, s.upper(), back))
    else:
        if parts != []:
            cls = 'row_not_positive_decimal' if LEADING_ZERO_RE.fullmatch(s) else None
            out.append(('a string that is not a cell label decomposes', cls, [], repr(parts)))
    return out


def check_case(case):
    """case: {'label': s}  (replay and known-finding re-examination)."""
    s = case['label']
    return [{'case': case, 'what': w, 'class': c, 'expected': e, 'observed': o} for (w, c, e, o) in check_label(s)]


def _check_label_worker(s):
    return [(s,) + t for t in check_label(s)]


# ---------------- exploration ----------------
def explore(ctx):
    R = Result()
    rng = ctx.rng
    # 1. columns: exhaustive 1..4 letters, both directions
    labels = list(all_labels(4))
    R.exhaustive = True
    assert len(labels) == 475254
    n_lab = len(labels)

    def compare(entry, cases, enc_case, impl_fn, key):
        impl = pmap(impl_fn, cases)
        R.evaluations += len(cases)
        if ctx.model_ok:
            model = ctx.model(entry, [enc_case(c) for c in cases])
            for c, m, i in zip(cases, model, impl):
                R.compared += 1
                if m != i:
                    R.disagree(entry, c, m, i)
        for c in cases[:2]:
            R.sample({'entry': entry, 'case': c})
        R.nontrivial_extra += len(set(map(key, cases)))

    compare('col_l2i', labels, enc_text, _impl_col_l2i, lambda s: s)
    mixed = []
    for _ in range(20000 if not ctx.thorough else 200000):
        L = labels[rng.randrange(n_lab)]
        mixed.append(''.join(ch.lower() if rng.random() < 0.5 else ch for ch in L))
    mixed += [''.join(rng.choice(string.ascii_letters) for _ in range(rng.randint(5, 12))) for _ in range(3000)]
    # non-letters inside (find() == -1 branch), ASCII only
    mixed += [''.join(rng.choice('AZaz09$_ -') for _ in range(rng.randint(0, 5))) for _ in range(3000)]
    compare('col_l2i', mixed, enc_text, _impl_col_l2i, lambda s: s)
    idx = list(range(-3, n_lab + 5)) + [rng.randrange(10 ** rng.randint(6, 30)) for _ in range(3000)]
    compare('col_i2l', idx, lambda n: [n], _impl_col_i2l, lambda n: n)
    # 2. rows
    if ctx.thorough:
        rows = list(range(-3, 1048580))
    else:
        rows = sorted(set(list(range(-3, 3000)) + list(range(0, 1048580, 97)) +
                          [10 ** k + d for k in range(1, 8) for d in (-2, -1, 0, 1)] + [1048575, 1048576, 1048577]))
    rows += [rng.randrange(10 ** rng.randint(7, 40)) for _ in range(2000)]
    compare('row_i2l', rows, lambda n: [n], _impl_row_i2l, lambda n: n)
    rowlabels = [str(n) for n in rows if n >= 0] + ['', 'x', 'ab', '0', '00', '007', '1' * 50] + \
                ['0' * k + str(rng.randrange(1, 5000)) for k in range(1, 4) for _ in range(50)]
    compare('row_l2i', rowlabels, enc_text, _impl_row_l2i, lambda s: s)
    # 3. decomposition: well-formed labels
    wf = []
    cols = ['A', 'Z', 'AA', 'AZ', 'ZZ', 'AAA', 'XFD', 'XFE', 'ZZZ', 'AAAA', 'ZZZZ', 'AAAAA']
    rws = ['1', '2', '9', '10', '99', '100', '1048576', '1048577', '99999999999']
    nrand = 30000 if ctx.thorough else 4000
    for _ in range(nrand):
        c = labels[rng.randrange(n_lab)] if rng.random() < 0.8 else rng.choice(cols)
        c = ''.join(ch.lower() if rng.random() < 0.3 else ch for ch in c)
        r = str(rng.randrange(1, 1048577)) if rng.random() < 0.8 else rng.choice(rws)
        wf.append(('$' if rng.random() < 0.5 else '') + c + ('$' if rng.random() < 0.5 else '') + r)
    for c in cols:
        for r in rws:
            for a in ('', '$'):
                for b in ('', '$'):
                    wf.append(a + c + b + r)
                    wf.append(a + c.lower() + b + r)
    # labels that happen to be names of built-in functions (LOG10, ATAN2, ...): labels all the same, in every spelling
    from hotxlfp import formulas as _formulas
    import re as _re
    for fnm in sorted(_formulas.supported()):
        m_ = _re.match(r'([A-Z]+)([0-9]+)\Z', fnm)
        if m_:
            for a in ('', '$'):
                for b in ('', '$'):
                    wf.append(a + m_.group(1) + b + m_.group(2))
                    wf.append(a + m_.group(1).lower() + b + m_.group(2))
    # 4. malformed stream
    bad = ['', 'A', '1', 'A0', 'A01', 'A00', '$A$0', 'A1\n', 'A1 ', ' A1', 'A 1', '$$A1', 'A$$1', 'A1$', '$1', 'A-1',
           'A1B', 'A1B2', 'A:1', u'\xe91', u'A٣', u'A１', u'Α' + '1', 'A1\r', 'A1\x0b', '\nA1', 'A1\n\n',
           'a1\n', '$A$1\n', 'A+1', 'A1.0', '1A', '$', '$$', 'A$', u'K1']
    alpha = '$$AaZz0019 \n-:.' + u'\xe9٣'
    for _ in range(20000 if ctx.thorough else 5000):
        bad.append(''.join(rng.choice(alpha) for _ in range(rng.randint(0, 6))))
    allx = wf + bad
    compare('extract', allx, enc_text, _impl_extract, lambda s: s)
    # 5. property oracle directly on the implementation
    blocks = []
    B = 4096
    for st in range(0, n_lab, B):
        blocks.append((st, labels[st:st + B]))
    for badlist in pmap(_oracle_label_block, blocks):
        for L, what in badlist:
            R.violate({'column_label': L}, what, None)
    R.evaluations += n_lab
    # rows
    from hotxlfp.helper import cell
    for n in rows:
        if n >= 0:
            if cell.row_index_to_label(n) != str(n + 1) or cell.row_label_to_index(str(n + 1)) != n:
                R.violate({'row_index': n}, 'row label/index round trip fails', None, str(n + 1),
                          cell.row_index_to_label(n))
    R.evaluations += len(rows)
    for vs in pmap(_check_label_worker, allx):
        for (s, w, c, e, o) in vs:
            R.violate({'label': s}, w, c, e, o)
    R.evaluations += len(allx)
    R.rule = ('columns: every label of 1-4 letters (475254, exhaustive) in both directions, plus mixed-case and longer '
              'random labels; rows: boundaries/stride (quick) or every row 0..1048579 (thorough) plus random big; '
              'decomposition: well-formed labels over all $ patterns and cases, plus a malformed stream '
              '(newline, leading zeros, non-ASCII letters/digits, misplaced $). distinct_nontrivial counts '
              'distinct inputs per entry point (every input exercises the conversion loops).')
    R.extra['input_distribution'] = {'column_labels': n_lab, 'mixed_case_or_long': len(mixed), 'indices': len(idx),
                                     'rows': len(rows), 'row_labels': len(rowlabels), 'wellformed_labels': len(wf),
                                     'malformed': len(bad)}
    return R


def search(ctx, proof, res):
    """Extended failing-input search when a proof or the correspondence broke: every disagreeing
    case is replayed through the property oracle, then a wider random stream."""
    R = Result()
    rng = ctx.rng
    cand = []
    for d in res.disagreements:
        c = d['case']
        if isinstance(c, str):
            cand += [c, c + '1', 'A' + c, c.upper()]
        elif isinstance(c, int) and c >= 0:
            from hotxlfp.helper import cell
            try:
                L = cell.column_index_to_label(c)
                i = cell.column_label_to_index(L)
                if i != c:
                    R.violate({'column_index': c}, 'index -> label -> index is not the identity', None, c, i)
                if cell.row_label_to_index(cell.row_index_to_label(c)) != c:
                    R.violate({'row_index': c}, 'row index -> label -> index is not the identity', None, c,
                              cell.row_label_to_index(cell.row_index_to_label(c)))
            except Exception as e:  # noqa
                R.violate({'column_index': c}, 'conversion raised %r' % e, None)
    for _ in range(100000):
        n = rng.randint(1, 7)
        cand.append(('$' if rng.random() < 0.3 else '') + ''.join(rng.choice(string.ascii_letters) for _ in range(n)) +
                    ('$' if rng.random() < 0.3 else '') + str(rng.randrange(1, 10 ** rng.randint(1, 9))))
    for vs in pmap(_check_label_worker, cand):
        for (s, w, c, e, o) in vs:
            R.violate({'label': s}, w, c, e, o)
    R.evaluations = len(cand)
    return R
