(* The shapes of the error-trapping functions as data: IFERROR, IFNA (formulas/logic.py) as a conditional expression
   over a class test of the first parameter, ERROR.TYPE (formulas/information.py) as a lookup table with a default.
   Gen/TrapFns.v holds them, regenerated from the source on every run by tools/gen/trapshape.py (python ast,
   fail-closed); Proofs/TrapSource.v proves that they denote the bodies of Model/ErrorFlow.v. *)
From HX Require Export Model.PredShape Model.ErrorFlow.
Open Scope Z_scope.

(* def F(p0, p1): return p<then> if <test on p0> else p<else> *)
Record trap_fn := { tf_test : pexp; tf_then : nat; tf_else : nat }.
Definition run_trap (f : trap_fn) (args : list value) : outcome :=
  match args with
  | [v; w] => Ret (if peval v (tf_test f) then nth (tf_then f) args VBlank else nth (tf_else f) args VBlank)
  | _ => PyExc
  end.

(* def F(p0): errdict = {error.X: n, ...}; return errdict.get(p0, error.D)
   (keys are the canonical XLError singletons, hashed and compared by identity) *)
Fixpoint table_get (e : err) (t : list (err * Z)) : option Z :=
  match t with
  | [] => None
  | (k, n) :: r => if err_eqb k e then Some n else table_get e r
  end.
Fixpoint keys_distinct (t : list (err * Z)) : bool :=
  match t with
  | [] => true
  | (k, _) :: r => match table_get k r with Some _ => false | None => keys_distinct r end
  end.
Definition run_table (t : list (err * Z)) (default : err) (v : value) : value :=
  match v with
  | VErr e => match table_get e t with Some n => VInt n | None => VErr default end
  | _ => VErr default
  end.
