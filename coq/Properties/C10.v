(* C10 — Reference events deliver canonical coordinates, once, in evaluation order.
   Property theorems only; proofs are in Proofs/RefsProofs.v and Proofs/LRfull.v (the real LR driver on the generated
   tables, with the real grammar actions and host callbacks, emits exactly the events of the post-order evaluation). *)
From HX Require Import Model.Base Model.Lexer Model.Value Model.Operators Model.Cell Model.Interp
  Proofs.LRcert Proofs.LRvalue Proofs.LRfull Proofs.RefsProofs Proofs.RefsPrefix Proofs.CellProofs Gen.Registry.
Open Scope Z_scope.

Theorem C10_certificate : cert_full = true.
Proof. exact cert_full_ok. Qed.

(* the driver, at any depth of nesting: from a state that expects an expression, the tokens of e are consumed and
   exactly the events of xval h e are emitted, ending with the value on the stack or with the failure of xval *)
Theorem C10_driver_emits_postorder_events : forall h e, xwp e ->
  forall st rest q, In (top_state st) es_list -> goto_E (top_state st) = Some q -> xenter_ok q e -> xfollow_ok e (la rest) ->
    reachle h (xsteps e) (st, xtoks e ++ rest) (snd (xval h e)) (tgt (fun v => ((q, SVval v) :: st, rest)) (fst (xval h e))).
Proof. exact lr_runs_expr. Qed.
Theorem C10_parse_emits_postorder_events : forall h s e, s <> [] -> lex s = LexOk (xtoks e) -> xwp e ->
  parse_formula h s = (record_of (fst (xval h e)), snd (xval h e)).
Proof. exact parse_formula_expr. Qed.

(* exactly one event per reference, left to right, arguments before their call *)
Theorem C10_one_event_per_reference_in_order : forall h e v, fst (xval h e) = ROk v -> map ref_of (snd (xval h e)) = refs e.
Proof. exact events_postorder. Qed.
(* ... also when the evaluation fails: what was emitted before the failure is a prefix of the post-order list *)
Theorem C10_events_prefix_when_failing : forall h e,
  is_prefix (map ref_of (snd (xval h e))) (refs e) /\
  (forall v, fst (xval h e) = ROk v -> map ref_of (snd (xval h e)) = refs e).
Proof. exact events_prefix_of_postorder. Qed.
Theorem C10_arguments_before_call : forall h sp name args vs evs v, xvals (xval h) args = (ROk vs, evs) ->
  fst (call_function h name vs) = ROk v -> snd (xval h (XCall sp name args)) = evs ++ [EvFunction name vs].
Proof. exact call_arguments_in_order. Qed.

(* a cell event: upper-cased label, zero-based row and column, absolute markers; the label is the label of the
   coordinates; the value is the last one other than None handed to the setter, blank with no listener *)
Theorem C10_cell_event : forall h s ca ls ra n, label_shaped s ca ls ra (dec_text_of n) -> 1 <= n ->
  call_cell_value h s =
    (ROk (last_non_none (handed_for (upper_text s) (h_cells h)) VBlank),
     [EvCell (upper_text s) (n - 1) (col_label_to_index ls) ra ca]) /\
  upper_text s = dollar ca ++ col_index_to_label (col_label_to_index ls) ++ dollar ra ++ row_index_to_label (n - 1).
Proof. exact cell_event. Qed.
(* a range event: top-left and bottom-right corners however the corners were written, labels of the coordinates *)
Theorem C10_range_event : forall h a ca1 ls1 ra1 n1 b ca2 ls2 ra2 n2,
  label_shaped a ca1 ls1 ra1 (dec_text_of n1) -> 1 <= n1 -> label_shaped b ca2 ls2 ra2 (dec_text_of n2) -> 1 <= n2 ->
  let c1 := col_label_to_index ls1 in let c2 := col_label_to_index ls2 in
  exists L1 L2, call_range_value h a b =
    (ROk (last_non_none (h_ranges h) VBlank),
     [EvRange L1 (Z.min (n1 - 1) (n2 - 1)) (Z.min c1 c2) L2 (Z.max (n1 - 1) (n2 - 1)) (Z.max c1 c2)]) /\
  (exists x y, L1 = dollar x ++ col_index_to_label (Z.min c1 c2) ++ dollar y ++ row_index_to_label (Z.min (n1 - 1) (n2 - 1))) /\
  (exists x y, L2 = dollar x ++ col_index_to_label (Z.max c1 c2) ++ dollar y ++ row_index_to_label (Z.max (n1 - 1) (n2 - 1))).
Proof. exact range_event. Qed.
(* ... and the label of coordinates denotes those coordinates (C19): index -> label -> index *)
Theorem C10_corner_labels_denote_coordinates : forall col row, 0 <= col -> 0 <= row ->
  col_label_to_index (col_index_to_label col) = col /\ row_label_to_index (row_index_to_label row) = row.
Proof. intros col row Hc Hr. split; [exact (col_rt1 col Hc)|exact (proj2 (row_rt row Hr))]. Qed.
Theorem C10_range_corner_orders : forall h a ca1 ls1 ra1 n1 b ca2 ls2 ra2 n2,
  label_shaped a ca1 ls1 ra1 (dec_text_of n1) -> 1 <= n1 -> label_shaped b ca2 ls2 ra2 (dec_text_of n2) -> 1 <= n2 ->
  forall r c, (exists l1 l2 r2 c2, snd (call_range_value h a b) = [EvRange l1 r c l2 r2 c2]) <->
              (exists l1 l2 r2 c2, snd (call_range_value h b a) = [EvRange l1 r c l2 r2 c2]).
Proof. exact range_corner_orders. Qed.

(* the setter: the last value other than None wins - including 0, FALSE and empty text; no listener = unchanged *)
Theorem C10_setter_last_wins : forall vals v cur, v <> VBlank -> last_non_none (vals ++ [v]) cur = v.
Proof. exact setter_last_wins. Qed.
Theorem C10_setter_ignores_none : forall vals cur, last_non_none (vals ++ [VBlank]) cur = last_non_none vals cur.
Proof. exact setter_ignores_none. Qed.
Theorem C10_setter_falsy_values_count : forall cur,
  last_non_none [VInt 0] cur = VInt 0 /\ last_non_none [VBool false] cur = VBool false /\ last_non_none [VText []] cur = VText [].
Proof. exact setter_falsy_values_count. Qed.
Theorem C10_setter_no_listener : forall cur, last_non_none [] cur = cur.
Proof. exact setter_no_listener. Qed.
Theorem C10_variable_setter : forall h n vals v, handed_for n (h_varset h) = vals ++ [v] -> v <> VBlank ->
  call_variable h n = (ROk v, [EvVariable n]).
Proof. exact variable_setter_resolves. Qed.
Theorem C10_function_setter : forall h name args b, assoc_text name (h_funs h) = Some b ->
  call_function h name args =
  match b with
  | BRecord => (ROk (last_non_none (handed_for name (h_funset h)) (VList args)), [EvFunction name args])
  | BIdent => match args with a :: _ => (ROk (last_non_none (handed_for name (h_funset h)) a), [EvFunction name args]) | [] => (RExc, []) end
  | BConst v => (ROk (last_non_none (handed_for name (h_funset h)) v), [EvFunction name args])
  | BRaiseXL e => (ROk (last_non_none (handed_for name (h_funset h)) (VErr e)), [EvFunction name args])
  | BRaisePy => (RExc, [])
  end.
Proof. exact custom_function_wins. Qed.

(* non-vacuity:  F(a1, $B$2:A1, x) + 1  on a concrete host *)
Example C10_example :
  let h := {| h_vars := [([120], VInt 5)]; h_funs := [([70], BRecord)]; h_cells := [([65;49], [VBlank; VInt 0; VBlank])];
              h_ranges := [VBool false]; h_registry := registry_names; h_varset := []; h_funset := []; h_oracle := fun _ _ => None |} in
  snd (parse_formula h [70;40;97;49;44;36;66;36;50;58;65;49;44;120;41]) =
    [EvCell [65;49] 0 0 false false; EvRange [65;49] 0 0 [36;66;36;50] 1 1; EvVariable [120];
     EvFunction [70] [VInt 0; VBool false; VInt 5]].
Proof. vm_compute. reflexivity. Qed.

Print Assumptions C10_driver_emits_postorder_events.
Print Assumptions C10_parse_emits_postorder_events.
Print Assumptions C10_one_event_per_reference_in_order.
Print Assumptions C10_cell_event.
Print Assumptions C10_range_event.
Print Assumptions C10_range_corner_orders.
Print Assumptions C10_setter_last_wins.
Print Assumptions C10_events_prefix_when_failing.
