(* C17 — Rounding and integer functions meet their specs; radix conversions invert.
   Property theorems only; proofs are in Proofs/RoundingProofs.v and Proofs/RadixProofs.v.
   Numbers are exact (ints in Z, floats as the rationals they denote). *)
From HX Require Import Model.Value Model.Operators Model.Rounding Model.Radix Proofs.RoundingProofs Proofs.RadixProofs.
From Coq Require Import QArith Qround Qabs.
Open Scope Q_scope.

(* ROUND: a multiple k of u = 10^-digits with |x/u - k| <= 1/2 *)
Theorem C17_ROUND : forall q d, exists k,
  fn_ROUND (NF q) d = NOk (NF (inject_Z k / pow10 d)) /\ Qabs (q * pow10 d - inject_Z k) <= 1 # 2.
Proof. exact ROUND_float. Qed.
Theorem C17_ROUND_int : forall n d, (d < 0)%Z -> exists k, fn_ROUND (NI n) d = NOk (NI (k * 10 ^ (- d))) /\
  Qabs (inject_Z n / inject_Z (10 ^ (- d)) - inject_Z k) <= 1 # 2.
Proof. exact ROUND_int_neg_digits. Qed.
(* ROUNDUP: a multiple k of u, one unit above in magnitude: |x|/u <= |k| < |x|/u + 1, sign of x *)
Theorem C17_ROUNDUP : forall x d, exists k, fn_ROUNDUP x d = NOk (NF (inject_Z k / pow10 d)) /\
  let y := Qabs (num_q x) * pow10 d in
  y <= inject_Z (Z.abs k) /\ inject_Z (Z.abs k) < y + 1 /\ (k = (if qsign_pos (num_q x) then 1 else -1) * Z.abs k)%Z.
Proof. exact ROUNDUP_spec. Qed.
(* ROUNDDOWN: one unit below in magnitude: |k| <= |x|/u < |k| + 1 *)
Theorem C17_ROUNDDOWN : forall x d, exists k, fn_ROUNDDOWN x d = NOk (NF (inject_Z k / pow10 d)) /\
  let y := Qabs (num_q x) * pow10 d in
  inject_Z (Z.abs k) <= y /\ y < inject_Z (Z.abs k) + 1 /\ (k = (if qsign_pos (num_q x) then 1 else -1) * Z.abs k)%Z.
Proof. exact ROUNDDOWN_spec. Qed.

(* CEILING / FLOOR: the adjacent multiple of the significance on the documented side *)
Theorem C17_CEILING_nonneg : forall x s, (Qnum (num_q s) <> 0)%Z -> 0 <= num_q x -> exists k,
  fn_CEILING x s = NOk (mk_num (num_is_int s) (inject_Z k * Qabs (num_q s))) /\
  num_q x <= inject_Z k * Qabs (num_q s) /\ inject_Z k * Qabs (num_q s) < num_q x + Qabs (num_q s).
Proof. exact CEILING_nonneg. Qed.
Theorem C17_FLOOR_nonneg : forall x s, 0 < num_q s -> 0 <= num_q x -> exists k,
  fn_FLOOR x s = NOk (mk_num (num_is_int s) (inject_Z k * Qabs (num_q s))) /\
  inject_Z k * Qabs (num_q s) <= num_q x /\ num_q x < inject_Z k * Qabs (num_q s) + Qabs (num_q s).
Proof. exact FLOOR_nonneg. Qed.
Theorem C17_CEILING_FLOOR_negative : forall x s, (Qnum (num_q s) <> 0)%Z -> num_q x < 0 ->
  let a := Qabs (num_q s) in
  exists kc kf, fn_CEILING x s = NOk (mk_num (num_is_int s) (inject_Z kc * a)) /\
                fn_FLOOR x s = NOk (mk_num (num_is_int s) (inject_Z kf * a)) /\
    (0 < num_q s -> (num_q x <= inject_Z kc * a /\ inject_Z kc * a < num_q x + a) /\
                    (inject_Z kf * a <= num_q x /\ num_q x < inject_Z kf * a + a)) /\
    (num_q s < 0 -> (inject_Z kc * a <= num_q x /\ num_q x < inject_Z kc * a + a) /\
                    (num_q x <= inject_Z kf * a /\ inject_Z kf * a < num_q x + a)).
Proof. exact CEILING_FLOOR_negative. Qed.
Theorem C17_FLOOR_NUM : forall x s, 0 < num_q x -> num_q s < 0 -> fn_FLOOR x s = NErr ENUM.
Proof. exact FLOOR_positive_number_nonpositive_significance. Qed.

(* INT is the floor *)
Theorem C17_INT : forall x, exists z, fn_INT x = NOk (NI z) /\ inject_Z z <= num_q x /\ num_q x < inject_Z z + 1.
Proof. exact INT_is_floor. Qed.
(* EVEN / ODD: the nearest even / odd integer at or beyond the number, away from zero *)
Theorem C17_EVEN : forall x, exists t, fn_EVEN x = NOk (NI (if qsign_pos (num_q x) then t else - t)%Z) /\
  Z.even t = true /\ Qabs (num_q x) <= inject_Z t /\ inject_Z t < Qabs (num_q x) + 2.
Proof. exact EVEN_spec. Qed.
Theorem C17_ODD : forall x, exists t, fn_ODD x = NOk (NI (if (0 <=? Qnum (num_q x))%Z then t else - t)%Z) /\
  Z.odd t = true /\ Qabs (num_q x) <= inject_Z t /\ inject_Z t < Qabs (num_q x) + 2.
Proof. exact ODD_spec. Qed.
(* QUOTIENT is the truncated quotient, MOD the remainder with the divisor's sign, number = divisor * integer + MOD *)
Theorem C17_QUOTIENT : forall x y, (Qnum (num_q y) <> 0)%Z -> exists z, fn_QUOTIENT x y = NOk (NI z) /\
  let q := num_q x / num_q y in
  (0 <= q -> inject_Z z <= q /\ q < inject_Z z + 1) /\ (q <= 0 -> q <= inject_Z z /\ inject_Z z - 1 < q).
Proof. exact QUOTIENT_trunc. Qed.
Theorem C17_MOD_int : forall a b, (b <> 0)%Z -> exists m, fn_MOD (NI a) (NI b) = NOk (NI m) /\
  (exists k, a = b * k + m)%Z /\ ((0 < b -> 0 <= m < b) /\ (b < 0 -> b < m <= 0))%Z.
Proof. exact MOD_int. Qed.
Theorem C17_MOD_general : forall x y, (Qnum (num_q y) <> 0)%Z ->
  exists m, (fn_MOD x y = NOk (NF m) \/ exists z, fn_MOD x y = NOk (NI z) /\ m = inject_Z z) /\
  exists k, num_q x == num_q y * inject_Z k + m.
Proof. exact MOD_general. Qed.
Theorem C17_zero_divisor : forall x y, (Qnum (num_q y) = 0)%Z -> fn_MOD x y = NErr EDIV0 /\ fn_QUOTIENT x y = NErr EDIV0.
Proof. exact MOD_zero_divisor. Qed.
Theorem C17_SIGN : forall x, exists s, fn_SIGN x = NOk (NI s) /\
  ((0 < num_q x -> s = 1%Z) /\ (num_q x == 0 -> s = 0%Z) /\ (num_q x < 0 -> s = (-1)%Z)).
Proof. exact SIGN_spec. Qed.
Theorem C17_FACT : forall n, (0 <= n)%Z -> fn_FACT (NI n) = NOk (NI (Rounding.fact (Z.to_nat n))) /\
  Rounding.fact 0 = 1%Z /\ (forall k, Rounding.fact (S k) = (Z.of_nat (S k) * Rounding.fact k)%Z).
Proof. exact FACT_spec. Qed.
Theorem C17_FACTDOUBLE : forall n, (2 <= n)%Z ->
  dfact_fuel (Z.to_nat n) n = (n * dfact_fuel (Z.to_nat (n - 2)) (n - 2))%Z.
Proof. exact dfact_step. Qed.
Theorem C17_negative_factorial : forall x, (Qnum (num_q x) < 0)%Z -> fn_FACT x = NErr ENUM /\ fn_FACTDOUBLE x = NErr ENUM.
Proof. exact negative_factorial_is_NUM. Qed.

(* radix conversions are mutually inverse; out-of-range arguments are errors *)
Theorem C17_hex_roundtrip : forall n, (- two39 <= n < two39)%Z -> exists s, fn_DEC2HEX n None = ROk s /\ fn_HEX2DEC s = RInt n.
Proof. exact hex_roundtrip. Qed.
Theorem C17_hex_out_of_range : forall n, (n < - two39 \/ two39 <= n)%Z -> fn_DEC2HEX n None = RNum.
Proof. exact hex_out_of_range. Qed.
Theorem C17_hex_too_long : forall s dec, parse_int 16 s = Some dec -> (two40 <= dec)%Z -> fn_HEX2DEC s = RNum.
Proof. exact hex_too_long. Qed.
Theorem C17_base_roundtrip : forall n r, (2 <= r <= 36)%Z -> (0 <= n < two39)%Z ->
  exists s, fn_BASE n r None = ROk s /\ fn_DECIMAL s r = RInt n.
Proof. exact base_roundtrip. Qed.
Theorem C17_base_letter_digits : forall d, (10 <= d < 36)%Z -> (65 <= digit_char d <= 90)%Z.
Proof. exact digit_letters. Qed.
Theorem C17_base_rejects : forall v b p, (v < 0 \/ b < 2 \/ 36 < b)%Z ->
  (match p with Some q => (0 <= q)%Z | None => True end) -> fn_BASE v b p = RNum.
Proof. exact base_rejects. Qed.
(* ROMAN / ARABIC: finite domain 1..3999 x forms 0..4 (stated in the theorem), by exhaustive evaluation *)
Theorem C17_roman_denotes : forall n f, (1 <= n <= 3999)%Z -> (0 <= f <= 4)%Z ->
  exists s, fn_ROMAN n f = ROk s /\ roman_value s = n.
Proof. exact roman_denotes. Qed.
Theorem C17_arabic_roman : forall n, (1 <= n <= 3999)%Z -> exists s, fn_ROMAN n 0 = ROk s /\ fn_ARABIC s = RInt n.
Proof. exact arabic_roman. Qed.
Theorem C17_complex_parts : forall re im, fn_IMREAL_COMPLEX re im = re /\ fn_IMAGINARY_COMPLEX re im = im.
Proof. exact complex_parts. Qed.

Example C17_examples : (
  fn_ROUND (NI 1250) (-2) = NOk (NI 1200) /\ fn_ROUND (NI 1350) (-2) = NOk (NI 1400) /\
  fn_INT (NF (-5 # 2)%Q) = NOk (NI (-3)) /\ fn_ODD (NI 0) = NOk (NI 1) /\ fn_EVEN (NF (-3 # 2)%Q) = NOk (NI (-2)) /\
  fn_MOD (NI (-7)) (NI 3) = NOk (NI 2) /\ fn_MOD (NI 7) (NI (-3)) = NOk (NI (-2)) /\
  fn_QUOTIENT (NI (-7)) (NI 2) = NOk (NI (-3)) /\
  fn_BASE 255 16 None = ROk [70; 70] /\ fn_BASE 5 1 None = RNum /\
  fn_DEC2HEX (-1) None = ROk [70; 70; 70; 70; 70; 70; 70; 70; 70; 70] /\
  fn_ROMAN 499 0 = ROk [67; 68; 88; 67; 73; 88] /\ fn_ROMAN 499 4 = ROk [73; 68] /\
  fn_FACTDOUBLE (NI 7) = NOk (NI 105))%Z.
Proof. vm_compute. repeat split; reflexivity. Qed.

Print Assumptions C17_ROUND.
Print Assumptions C17_ROUNDUP.
Print Assumptions C17_CEILING_nonneg.
Print Assumptions C17_CEILING_FLOOR_negative.
Print Assumptions C17_MOD_int.
Print Assumptions C17_QUOTIENT.
Print Assumptions C17_hex_roundtrip.
Print Assumptions C17_base_roundtrip.
Print Assumptions C17_roman_denotes.
Print Assumptions C17_arabic_roman.
