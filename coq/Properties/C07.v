(* C07 — Comparisons form a consistent total order with number < text < logical.
   Property theorems only; proofs are in Proofs/ComparatorProofs.v. *)
From HX Require Import Model.Base Model.Calendar Model.Serial Model.Comparator Proofs.ComparatorProofs Proofs.ComparatorOrder.
From Coq Require Import QArith.
Open Scope Z_scope.

(* for any two scalar values exactly one of a<b, a=b, a>b is TRUE *)
Theorem C07_trichotomy : forall a b, exactly_one (cmp_lt a b) (cmp_eq a b) (cmp_gt a b).
Proof. exact trichotomy. Qed.

(* a<=b, a>=b, a<>b are exactly the derived relations *)
Theorem C07_le_derived : forall a b, cmp_le a b = (cmp_lt a b || cmp_eq a b)%bool /\ cmp_le a b = negb (cmp_gt a b).
Proof. intros a b. split; [exact (derived_le a b)|exact (ComparatorProofs.le_not_gt a b)]. Qed.
Theorem C07_ge_derived : forall a b, cmp_ge a b = (cmp_gt a b || cmp_eq a b)%bool /\ cmp_ge a b = negb (cmp_lt a b).
Proof. intros a b. split; [exact (derived_ge a b)|exact (ComparatorProofs.ge_not_lt a b)]. Qed.
Theorem C07_ne_derived : forall a b, cmp_ne a b = negb (cmp_eq a b) /\ cmp_ne a b = (cmp_lt a b || cmp_gt a b)%bool.
Proof. intros a b. split; [exact (derived_ne a b)|exact (ne_lt_or_gt a b)]. Qed.

(* a<b iff b>a *)
Theorem C07_converse : forall a b, cmp_lt a b = cmp_gt b a.
Proof. exact lt_gt_converse. Qed.

(* transitive on non-blank values *)
Theorem C07_transitive : forall a b c, nonblank a -> nonblank b -> nonblank c ->
  cmp_lt a b = true -> cmp_lt b c = true -> cmp_lt a c = true.
Proof. exact lt_transitive. Qed.

(* every number or date is less than every text, every text less than every logical *)
Theorem C07_rank_number_text : forall n s, is_numeric n -> is_text s ->
  cmp_lt n s = true /\ cmp_gt n s = false /\ cmp_eq n s = false.
Proof. exact rank_number_text. Qed.
Theorem C07_rank_text_logical : forall s l, is_text s -> is_logical l ->
  cmp_lt s l = true /\ cmp_gt s l = false /\ cmp_eq s l = false.
Proof. exact rank_text_logical. Qed.
Theorem C07_rank_number_logical : forall n l, is_numeric n -> is_logical l ->
  cmp_lt n l = true /\ cmp_gt n l = false /\ cmp_eq n l = false.
Proof. exact rank_number_logical. Qed.

(* numbers and dates (by serial) order numerically, text lexicographically *)
Theorem C07_number_order : forall x y,
  (cmp_lt (SNum x) (SNum y) = true <-> (x < y)%Q) /\ (cmp_eq (SNum x) (SNum y) = true <-> (x == y)%Q).
Proof. exact num_order. Qed.
Theorem C07_date_order : forall a b, cmp_lt (SDate a) (SDate b) = true <-> serial_us a < serial_us b.
Proof. exact date_order. Qed.
Theorem C07_date_number_order : forall a x, cmp_lt (SDate a) (SNum x) = true <-> (serial_q a < x)%Q.
Proof. exact date_number_order. Qed.
Theorem C07_text_order : forall a b,
  (cmp_lt (SText a) (SText b) = true <-> lex_lt a b) /\ (cmp_eq (SText a) (SText b) = true <-> a = b).
Proof. exact text_order. Qed.

(* a blank compares as 0, as empty text or as FALSE according to the other operand *)
Theorem C07_blank_left : forall b, nonblank b ->
  cmp_lt SBlank b = cmp_lt (blank_as b) b /\ cmp_gt SBlank b = cmp_gt (blank_as b) b /\ cmp_eq SBlank b = cmp_eq (blank_as b) b.
Proof. exact blank_left. Qed.
Theorem C07_blank_right : forall a, nonblank a ->
  cmp_lt a SBlank = cmp_lt a (blank_as a) /\ cmp_gt a SBlank = cmp_gt a (blank_as a) /\ cmp_eq a SBlank = cmp_eq a (blank_as a).
Proof. exact blank_right. Qed.

(* order-theoretic corollaries for every pair of values, blank included (Proofs/ComparatorOrder.v) *)
Theorem C07_reflexive : forall a, cmp_lt a a = false /\ cmp_gt a a = false /\ cmp_eq a a = true.
Proof. exact lt_irreflexive. Qed.
Theorem C07_asymmetric : forall a b, cmp_lt a b = true -> cmp_lt b a = false.
Proof. exact lt_asymmetric. Qed.
Theorem C07_eq_symmetric : forall a b, cmp_eq a b = cmp_eq b a.
Proof. exact eq_symmetric. Qed.
Theorem C07_le_total : forall a b, cmp_le a b = true \/ cmp_ge a b = true.
Proof. exact le_total. Qed.
Theorem C07_le_antisymmetric : forall a b, cmp_le a b = true -> cmp_le b a = true -> cmp_eq a b = true.
Proof. exact le_antisymmetric. Qed.
Theorem C07_le_ge_converse : forall a b, cmp_le a b = cmp_ge b a.
Proof. exact le_ge_converse. Qed.

Example C07_examples :
  cmp_lt (SBool true) (SNum 3) = false /\ cmp_gt (SBool true) (SNum 3) = true /\
  cmp_eq (SNum 1) (SBool true) = false /\ cmp_lt (SNum 3) (SText [97]) = true /\
  cmp_lt (SText [97]) (SBool false) = true /\ cmp_eq SBlank (SBool false) = true /\
  cmp_eq SBlank (SNum 0) = true /\ cmp_eq SBlank (SText []) = true /\ cmp_lt SBlank (SNum (1#2)) = true /\
  cmp_eq (SNum (1#2)) (SNum (2#4)) = true /\ cmp_lt (SText [97]) (SText [97; 98]) = true /\
  cmp_eq (SDate (DT 1900 3 1 0 0 0 0)) (SNum 61) = true /\ nonblank (SNum 3) /\ is_numeric (SDate dt1900).
Proof. vm_compute. repeat split; try reflexivity; discriminate. Qed.

Print Assumptions C07_trichotomy.
Print Assumptions C07_eq_symmetric.
Print Assumptions C07_le_antisymmetric.
Print Assumptions C07_le_derived.
Print Assumptions C07_ge_derived.
Print Assumptions C07_ne_derived.
Print Assumptions C07_converse.
Print Assumptions C07_transitive.
Print Assumptions C07_rank_number_text.
Print Assumptions C07_number_order.
Print Assumptions C07_date_order.
Print Assumptions C07_text_order.
Print Assumptions C07_blank_left.
