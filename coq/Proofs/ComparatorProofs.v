(* C07: the comparator is a consistent total order with number/date < text < logical. *)
From HX Require Import Model.Base Model.Calendar Model.Serial Model.Comparator.
From Coq Require Import Lia QArith.
Open Scope Z_scope.

(* ---------- rationals ---------- *)
Lemma qltb_lt x y : qltb x y = true <-> (x < y)%Q.
Proof. unfold qltb, Qlt. apply Z.ltb_lt. Qed.
Lemma qeqb_eq x y : qeqb x y = true <-> (x == y)%Q.
Proof. unfold qeqb, Qeq. apply Z.eqb_eq. Qed.

Lemma q_trichotomy x y :
  (qltb x y = true /\ qeqb x y = false /\ qltb y x = false) \/
  (qltb x y = false /\ qeqb x y = true /\ qltb y x = false) \/
  (qltb x y = false /\ qeqb x y = false /\ qltb y x = true).
Proof. unfold qltb, qeqb. destruct (Z.ltb_spec (Qnum x * QDen y) (Qnum y * QDen x));
  destruct (Z.eqb_spec (Qnum x * QDen y) (Qnum y * QDen x));
  destruct (Z.ltb_spec (Qnum y * QDen x) (Qnum x * QDen y)); try lia; auto. Qed.

Lemma qltb_trans x y z : qltb x y = true -> qltb y z = true -> qltb x z = true.
Proof. rewrite !qltb_lt. apply Qlt_trans. Qed.

(* ---------- text: lexicographic by code point ---------- *)
Inductive lex_lt : list Z -> list Z -> Prop :=
  | lex_nil y b : lex_lt [] (y :: b)
  | lex_head x y a b : x < y -> lex_lt (x :: a) (y :: b)
  | lex_tail x a b : lex_lt a b -> lex_lt (x :: a) (x :: b).

Lemma text_ltb_lex a : forall b, text_ltb a b = true <-> lex_lt a b.
Proof.
  induction a as [|x a IH]; intros [|y b]; cbn [text_ltb].
  - split; [discriminate|inversion 1].
  - split; [constructor|reflexivity].
  - split; [discriminate|inversion 1].
  - destruct (Z.ltb_spec x y) as [L|L]; [split; [constructor; exact L|reflexivity]|].
    destruct (Z.ltb_spec y x) as [G|G].
    + split; [discriminate|]. inversion 1; subst; lia.
    + assert (x = y) by lia. subst y. rewrite IH. split; [constructor; assumption|].
      inversion 1; subst; [lia|assumption].
Qed.

Lemma list_eqb_eq a : forall b, list_eqb a b = true <-> a = b.
Proof.
  induction a as [|x a IH]; intros [|y b]; cbn [list_eqb]; try (split; [discriminate|discriminate]); [tauto|].
  rewrite andb_true_iff, Z.eqb_eq, IH. split; [intros [-> ->]; reflexivity|inversion 1; auto].
Qed.

Lemma text_trichotomy a : forall b,
  (text_ltb a b = true /\ list_eqb a b = false /\ text_ltb b a = false) \/
  (text_ltb a b = false /\ list_eqb a b = true /\ text_ltb b a = false) \/
  (text_ltb a b = false /\ list_eqb a b = false /\ text_ltb b a = true).
Proof.
  induction a as [|x a IH]; intros [|y b]; cbn [text_ltb list_eqb]; auto.
  destruct (Z.ltb_spec x y); destruct (Z.ltb_spec y x); destruct (Z.eqb_spec x y); try lia; cbn [andb]; auto.
Qed.

Lemma text_ltb_trans a : forall b c, text_ltb a b = true -> text_ltb b c = true -> text_ltb a c = true.
Proof.
  induction a as [|x a IH]; intros [|y b] [|z c]; cbn [text_ltb]; try discriminate; auto.
  destruct (Z.ltb_spec x y); destruct (Z.ltb_spec y x); destruct (Z.ltb_spec y z); destruct (Z.ltb_spec z y);
    destruct (Z.ltb_spec x z); destruct (Z.ltb_spec z x); try lia; try discriminate; auto.
  apply IH.
Qed.

(* ---------- kinds ---------- *)
Definition nonblank (v : sval) : Prop := v <> SBlank.
Definition is_numeric (v : sval) : Prop := match v with SNum _ | SDate _ => True | _ => False end.
Definition is_text (v : sval) : Prop := match v with SText _ => True | _ => False end.
Definition is_logical (v : sval) : Prop := match v with SBool _ => True | _ => False end.

Lemma core_trichotomy a b : a <> SBlank -> b <> SBlank -> (forall t, a <> SDate t) -> (forall t, b <> SDate t) ->
  (lt_core a b = true /\ eq_core a b = false /\ gt_core a b = false) \/
  (lt_core a b = false /\ eq_core a b = true /\ gt_core a b = false) \/
  (lt_core a b = false /\ eq_core a b = false /\ gt_core a b = true).
Proof.
  intros Ha Hb Da Db. destruct a as [x|t|x|x|]; try congruence; try (exfalso; eapply Da; reflexivity);
  destruct b as [y|t|y|y|]; try congruence; try (exfalso; eapply Db; reflexivity); cbn; auto.
  - apply q_trichotomy.
  - apply text_trichotomy.
  - destruct x, y; cbn; auto.
Qed.

Lemma undate_nodate v : forall t, undate v <> SDate t.
Proof. destruct v; cbn; congruence. Qed.
Lemma blank_as_nodate v : forall t, blank_as (undate v) <> SDate t.
Proof. destruct v; cbn; congruence. Qed.
Lemma blank_as_nonblank v : undate v <> SBlank -> blank_as (undate v) <> SBlank.
Proof. destruct v; cbn; congruence. Qed.

(* exactly one of a<b, a=b, a>b *)
Definition exactly_one (p q r : bool) : Prop :=
  (p = true /\ q = false /\ r = false) \/ (p = false /\ q = true /\ r = false) \/ (p = false /\ q = false /\ r = true).

Theorem trichotomy a b : exactly_one (cmp_lt a b) (cmp_eq a b) (cmp_gt a b).
Proof.
  unfold exactly_one, cmp_lt, cmp_eq, cmp_gt. cbv zeta.
  pose proof (undate_nodate a) as Da. pose proof (undate_nodate b) as Db.
  pose proof (blank_as_nodate a) as Za. pose proof (blank_as_nodate b) as Zb.
  pose proof (blank_as_nonblank a) as Na. pose proof (blank_as_nonblank b) as Nb.
  destruct (undate a) as [x|t|x|x|] eqn:Ea; try (exfalso; eapply Da; reflexivity);
  destruct (undate b) as [y|t|y|y|] eqn:Eb; try (exfalso; eapply Db; reflexivity);
  try (apply core_trichotomy; congruence); auto.
  all: try (match goal with |- context [blank_as ?v] =>
         pose proof (core_trichotomy v (blank_as v)) as T end;
         cbn [blank_as] in *; destruct T as [T|[T|T]]; try congruence; tauto).
Qed.


Theorem lt_gt_converse a b : cmp_lt a b = cmp_gt b a.
Proof.
  unfold cmp_lt, cmp_gt. cbv zeta.
  pose proof (undate_nodate a) as Da. pose proof (undate_nodate b) as Db.
  destruct (undate a) eqn:Ea; try (exfalso; eapply Da; reflexivity);
  destruct (undate b) eqn:Eb; try (exfalso; eapply Db; reflexivity); reflexivity.
Qed.

Theorem derived_le a b : cmp_le a b = cmp_lt a b || cmp_eq a b. Proof. reflexivity. Qed.
Theorem derived_ge a b : cmp_ge a b = cmp_gt a b || cmp_eq a b. Proof. reflexivity. Qed.
Theorem derived_ne a b : cmp_ne a b = negb (cmp_eq a b). Proof. reflexivity. Qed.
(* the derived relations in terms of the strict order alone *)
Theorem le_not_gt a b : cmp_le a b = negb (cmp_gt a b).
Proof. unfold cmp_le. destruct (trichotomy a b) as [(->&->&->)|[(->&->&->)|(->&->&->)]]; reflexivity. Qed.
Theorem ge_not_lt a b : cmp_ge a b = negb (cmp_lt a b).
Proof. unfold cmp_ge. destruct (trichotomy a b) as [(->&->&->)|[(->&->&->)|(->&->&->)]]; reflexivity. Qed.
Theorem ne_lt_or_gt a b : cmp_ne a b = cmp_lt a b || cmp_gt a b.
Proof. unfold cmp_ne. destruct (trichotomy a b) as [(->&->&->)|[(->&->&->)|(->&->&->)]]; reflexivity. Qed.

(* transitivity on non-blank values *)
Lemma core_trans a b c : lt_core a b = true -> lt_core b c = true -> lt_core a c = true.
Proof.
  destruct a as [x|t|x|x|], b as [y|t'|y|y|], c as [z|t''|z|z|]; cbn; try discriminate; auto.
  - apply qltb_trans.
  - apply text_ltb_trans.
  - destruct x, y, z; cbn; auto.
Qed.

Theorem lt_transitive a b c : nonblank a -> nonblank b -> nonblank c ->
  cmp_lt a b = true -> cmp_lt b c = true -> cmp_lt a c = true.
Proof.
  unfold nonblank, cmp_lt. cbv zeta. intros Ha Hb Hc.
  assert (undate a <> SBlank) by (destruct a; cbn; congruence).
  assert (undate b <> SBlank) by (destruct b; cbn; congruence).
  assert (undate c <> SBlank) by (destruct c; cbn; congruence).
  destruct (undate a) eqn:Ea; try congruence; destruct (undate b) eqn:Eb; try congruence;
  destruct (undate c) eqn:Ec; try congruence; apply core_trans.
Qed.

(* rank: number/date < text < logical *)
Theorem rank_number_text n s : is_numeric n -> is_text s -> cmp_lt n s = true /\ cmp_gt n s = false /\ cmp_eq n s = false.
Proof. destruct n; cbn; try tauto; destruct s; cbn; try tauto; auto. Qed.
Theorem rank_text_logical s l : is_text s -> is_logical l -> cmp_lt s l = true /\ cmp_gt s l = false /\ cmp_eq s l = false.
Proof. destruct s; cbn; try tauto; destruct l; cbn; try tauto; auto. Qed.
Theorem rank_number_logical n l : is_numeric n -> is_logical l -> cmp_lt n l = true /\ cmp_gt n l = false /\ cmp_eq n l = false.
Proof. destruct n; cbn; try tauto; destruct l; cbn; try tauto; auto. Qed.

(* numbers and dates order numerically (dates through their serial), text lexicographically *)
Theorem num_order x y : (cmp_lt (SNum x) (SNum y) = true <-> (x < y)%Q) /\ (cmp_eq (SNum x) (SNum y) = true <-> (x == y)%Q).
Proof. cbn. split; [apply qltb_lt|apply qeqb_eq]. Qed.
Theorem date_order a b : cmp_lt (SDate a) (SDate b) = true <-> serial_us a < serial_us b.
Proof. cbn. unfold qltb, serial_q. cbn [Qnum Qden]. rewrite Z.ltb_lt. unfold day_pos. lia. Qed.
Theorem date_number_order a x : cmp_lt (SDate a) (SNum x) = true <-> (serial_q a < x)%Q.
Proof. cbn. apply qltb_lt. Qed.
Theorem text_order a b : (cmp_lt (SText a) (SText b) = true <-> lex_lt a b) /\ (cmp_eq (SText a) (SText b) = true <-> a = b).
Proof. cbn. split; [apply text_ltb_lex|apply list_eqb_eq]. Qed.
Theorem logical_order : cmp_lt (SBool false) (SBool true) = true /\ cmp_lt (SBool true) (SBool false) = false.
Proof. split; reflexivity. Qed.

(* a blank compares as 0, as empty text or as FALSE according to the other operand *)
Theorem blank_left b : nonblank b ->
  cmp_lt SBlank b = cmp_lt (blank_as b) b /\ cmp_gt SBlank b = cmp_gt (blank_as b) b /\ cmp_eq SBlank b = cmp_eq (blank_as b) b.
Proof.
  intros H. destruct b as [y|t|y|y|]; try (exfalso; apply H; reflexivity); cbn; repeat split; try reflexivity.
  all: try (unfold qeqb; apply Z.eqb_sym).
  all: try (destruct y; reflexivity).
  all: try (apply eq_sym; apply Bool.eq_true_iff_eq; rewrite !list_eqb_eq; split; congruence).
Qed.
Theorem blank_right a : nonblank a ->
  cmp_lt a SBlank = cmp_lt a (blank_as a) /\ cmp_gt a SBlank = cmp_gt a (blank_as a) /\ cmp_eq a SBlank = cmp_eq a (blank_as a).
Proof. intros H. destruct a as [y|t|y|y|]; try (exfalso; apply H; reflexivity); cbn; repeat split; reflexivity. Qed.
Theorem blank_blank : cmp_eq SBlank SBlank = true /\ cmp_lt SBlank SBlank = false /\ cmp_gt SBlank SBlank = false.
Proof. repeat split; reflexivity. Qed.
