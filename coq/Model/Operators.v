(* formulas/operators.py: value_and_type, evaluate_arithmetic (interpreting the GENERATED conversion
   table Gen/ConvTable.v), ExcelArrayOps; the & branch and unary minus of grammarparser/parser.py;
   evaluate_logic.  Numbers are exact: ints in Z, floats as the rationals they denote (ideal arithmetic). *)
From HX Require Export Model.Value Model.Serial Model.Comparator.
From HX Require Export Gen.ConvTable.
Open Scope Z_scope.

Inductive num := NI (z : Z) | NF (q : Q).
Definition num_q (n : num) : Q := match n with NI z => inject_Z z | NF q => q end.
Definition num_value (n : num) : value := match n with NI z => VInt z | NF q => VFlt q end.
Definition num_is_zero (n : num) : bool := match n with NI z => z =? 0 | NF q => Qnum q =? 0 end.

(* Python + - * / on int/float *)
Definition arith_num (op : Z) (a b : num) : option num :=      (* None = ZeroDivisionError *)
  match op with
  | 0 => Some (match a, b with NI x, NI y => NI (x + y) | _, _ => NF (num_q a + num_q b)%Q end)
  | 1 => Some (match a, b with NI x, NI y => NI (x - y) | _, _ => NF (num_q a - num_q b)%Q end)
  | 2 => Some (match a, b with NI x, NI y => NI (x * y) | _, _ => NF (num_q a * num_q b)%Q end)
  | _ => if num_is_zero b then None else Some (NF (num_q a / num_q b)%Q)
  end.

(* ---------- to_number on text spelling a plain decimal number: [+-]?digits(.digits)? ---------- *)
Fixpoint all_digits_z (s : list Z) : bool := match s with [] => true | c :: r => is_digit c && all_digits_z r end.
Definition digits_value (s : list Z) : Z := fold_left (fun a c => a * 10 + (c - 48)) s 0.
Fixpoint split_dot_aux (s acc : list Z) : list Z * option (list Z) :=
  match s with
  | [] => (rev acc, None)
  | c :: r => if c =? 46 then (rev acc, Some r) else split_dot_aux r (c :: acc)
  end.
Definition is_nil (s : list Z) : bool := match s with [] => true | _ => false end.
Definition text_number (s : list Z) : option num :=
  let '(neg, body) := match s with
                      | 45 :: r => (true, r)
                      | 43 :: r => (false, r)
                      | _ => (false, s)
                      end in
  let sg (z : Z) := if neg then - z else z in
  match split_dot_aux body [] with
  | (ip, None) => if negb (is_nil ip) && all_digits_z ip then Some (NI (sg (digits_value ip))) else None
  | (ip, Some fp) =>
      if all_digits_z ip && all_digits_z fp && negb (is_nil ip && is_nil fp)
      then Some (NF (Qmake (sg (digits_value (ip ++ fp))) (Z.to_pos (10 ^ Z.of_nat (length fp)))))
      else None
  end.


(* serialize_date on a datetime: the int 0 for 1900-01-01T00:00, a float otherwise *)
Definition serialize_num (t : datetime) : num := if serial_us t =? 0 then NI 0 else NF (serial_q t).

(* parse_date on a number (result converter): serial -> datetime, #NUM! below 0;
   beyond year 9999 Python raises OverflowError *)
Definition us_of_q (q : Q) : Z := (Qnum q * 86400000000 * 2 + QDen q) / (2 * QDen q).   (* round(q * day) half up *)
Definition max_us : Z := 2958466 * 86400000000.
Definition parse_num (n : num) : outcome :=
  let S := us_of_q (num_q n) in
  if q_ltb (num_q n) 0 then Ret (VErr ENUM)
  else if max_us <=? S then PyExc
  else match parse_us S with
       | Some t => Ret (VDate t)
       | None => Ret (VErr ENUM)
       end.

(* value_and_type: kind of a scalar operand (text has been resolved by the harness: numeric and date
   text arrive as the number / date they spell; VText here is text that is neither) *)
Inductive operand := OpNum (n : num) | OpDate (t : datetime) | OpNone | OpOther.
Definition classify (v : value) : operand :=
  match v with
  | VInt z => OpNum (NI z)
  | VFlt q => OpNum (NF q)
  | VBool b => OpNum (NI (if b then 1 else 0))
  | VDate t => OpDate t
  | VBlank => OpNone
  | VText s => match text_number s with Some n => OpNum n | None => OpOther end   (* to_number on text spelling a plain decimal *)
  | _ => OpOther
  end.
Definition kind_of (o : operand) : option tkind :=
  match o with OpNum _ => Some KNum | OpDate _ => Some KDate | OpNone => Some KNone | OpOther => None end.

Definition tkind_eqb (a b : tkind) : bool :=
  match a, b with KNum, KNum | KDate, KDate | KNone, KNone => true | _, _ => false end.
Fixpoint lookup_conv (op : Z) (l r : tkind) (rows : list (Z * tkind * tkind * (conv * conv * option conv)))
  : option (conv * conv * option conv) :=
  match rows with
  | [] => None
  | (o, a, b, c) :: rest => if (o =? op) && tkind_eqb a l && tkind_eqb b r then Some c else lookup_conv op l r rest
  end.

(* applying a left/right converter; None = the converter cannot be applied (exception) *)
Definition apply_conv (c : conv) (o : operand) : option num :=
  match c, o with
  | CNone, OpNum n => Some n
  | CSerial, OpDate t => Some (serialize_num t)
  | CZero, _ => Some (NI 0)
  | _, _ => None
  end.

Definition arith_scalar (op : Z) (l r : value) : outcome :=
  let lo := classify l in let ro := classify r in
  match kind_of lo, kind_of ro with
  | Some lk, Some rk =>
      match lookup_conv op lk rk conv_rows with
      | None => Ret (VErr EVALUE)
      | Some (lc, rc, res) =>
          match apply_conv lc lo, apply_conv rc ro with
          | Some a, Some b =>
              match arith_num op a b with
              | None => Ret (VErr EDIV0)
              | Some n => match res with
                          | None => Ret (num_value n)
                          | Some CParse => parse_num n
                          | Some _ => PyExc
                          end
              end
          | _, _ => PyExc
          end
      end
  | _, _ => Ret (VErr EVALUE)
  end.

(* evaluate_arithmetic with ExcelArrayOps; fuel bounds the nesting depth of arrays *)
Definition swap_for_right_array (op : Z) : bool := (op =? 0) || (op =? 2).   (* __radd__ = __add__, __rmul__ = __mul__ *)
Fixpoint map_outcome (f : value -> outcome) (l : list value) : option (list value) :=
  (* elementwise results; None if an element raised *)
  match l with
  | [] => Some []
  | x :: r => match f x, map_outcome f r with
              | Ret v, Some vs => Some (v :: vs)
              | _, _ => None
              end
  end.
Fixpoint map2_outcome (f : value -> value -> outcome) (a b : list value) : option (list value) :=
  match a, b with
  | x :: a', y :: b' => match f x y, map2_outcome f a' b' with
                        | Ret v, Some vs => Some (v :: vs)
                        | _, _ => None
                        end
  | _, _ => Some []
  end.
Definition list_outcome (o : option (list value)) : outcome := match o with Some l => Ret (VList l) | None => PyExc end.

Fixpoint eval_arith (fuel : nat) (op : Z) (l r : value) : outcome :=
  match fuel with
  | O => PyExc
  | S f =>
    match l, r with
    | VErr _, _ => Ret l
    | _, VErr _ => Ret r
    | VList la, _ =>
        (* adapt_value *)
        let r' := match r with VList [x] => x | _ => r end in
        match r' with
        | VList lb => if (length lb =? length la)%nat then list_outcome (map2_outcome (eval_arith f op) la lb)
                      else Ret (VErr EVALUE)
        | _ => list_outcome (map_outcome (fun a => eval_arith f op a r') la)
        end
    | _, VList lb =>
        (* the scalar is on the left: reflected method; + and * evaluate (element, scalar) *)
        if swap_for_right_array op then list_outcome (map_outcome (fun b => eval_arith f op b l) lb)
        else list_outcome (map_outcome (fun b => eval_arith f op l b) lb)
    | _, _ => arith_scalar op l r
    end
  end.

(* the & branch *)
Definition amp_text (v : value) : option (list Z) :=
  match v with
  | VBlank => Some []
  | VText s => Some s
  | VInt z => Some (dec_text_of z)
  | _ => None                      (* str() of floats, logicals, dates, lists: not modelled *)
  end.
Definition eval_amp (l r : value) : outcome :=
  match l, r with
  | VErr _, _ => Ret l
  | _, VErr _ => Ret r
  | _, _ => match amp_text l, amp_text r with
            | Some a, Some b => Ret (VText (a ++ b))
            | _, _ => PyExc
            end
  end.

(* unary minus *)
Definition eval_neg (v : value) : outcome :=
  match v with
  | VErr _ => Ret v
  | VInt z => Ret (VInt (- z))
  | VFlt q => Ret (VFlt (- q))
  | VBool b => Ret (VInt (if b then -1 else 0))
  | _ => PyExc                     (* TypeError *)
  end.

(* evaluate_logic on scalars *)
Definition sval_of (v : value) : option sval :=
  match v with
  | VInt z => Some (SNum (inject_Z z))
  | VFlt q => Some (SNum q)
  | VBool b => Some (SBool b)
  | VText s => Some (SText s)
  | VBlank => Some SBlank
  | VDate t => Some (SDate t)
  | _ => None
  end.
Definition eval_cmp (op : Z) (l r : value) : outcome :=
  match l, r with
  | VErr _, _ => Ret l
  | _, VErr _ => Ret r
  | _, _ => match sval_of l, sval_of r with
            | Some a, Some b =>
                Ret (VBool (match op with
                            | 0 => cmp_lt a b | 1 => cmp_gt a b | 2 => cmp_eq a b
                            | 3 => cmp_le a b | 4 => cmp_ge a b | _ => cmp_ne a b end))
            | _, _ => PyExc
            end
  end.

(* ---------- runner entries ---------- *)
Definition e_arith (a : list Z) : list Z :=
  match a with
  | op :: r => match fst (dec_vals 2 r) with
               | [x; y] => enc_outcome (if op =? 4 then eval_amp x y else eval_arith (S (length r)) op x y)
               | _ => [-1]
               end
  | _ => [-1]
  end.
