#!/usr/bin/env python3
"""Writes MANIFEST.json from the table below (kept in one place so that it is always valid)."""
import json, os
V = os.path.dirname(os.path.dirname(os.path.abspath(__file__)))
CHECKS = {
 'C19': dict(
    text='Unbounded Coq theorems over an executable model of helper/cell.py (index<->label round trips for every '
         'index and every label of any length, injectivity/surjectivity, shortlex order, decomposition/recomposition '
         'for every well-formed label, non-labels decompose to nothing), tied to the code by an exhaustive '
         'correspondence on all 475254 labels of 1-4 letters in both directions plus rows, $ patterns and malformed '
         'strings. Proof is the right level: the domain is infinite and the functions are pure.',
    design='7/C19',
    note='Coq kernel + vm_compute; hand-written model tied by correspondence (extracted OCaml vs Python); Python '
         'str.upper/int()/re modelled on the ASCII classes the label grammar uses; 1 recorded known finding (A0/A01).',
    technique='Coq proof (induction, loop invariant) + exhaustive model/implementation correspondence'),
 'C20': dict(
    text='Coq theorems, by induction over all histories with arbitrary callback scripts (callbacks that subscribe, '
         'unsubscribe and emit during delivery) for every returning run: table = history-based specification, each '
         'emit delivers exactly its start-of-emit snapshot in subscription order with args and bound ctx, once <= 1 '
         'and called by the first completed emit, name isolation, exact effect of off(name)/off(name,cb). Tied to '
         'tinyemitter.py by random scripted histories on the real Emitter and on Parser instances.',
    design='7/C20',
    note='Python call stack modelled as a worklist machine; non-returning histories (RecursionError) excluded by '
         'hypothesis; callback identity = function identity; correspondence is sampled (random histories), not exhaustive.',
    technique='Coq proof (invariant over worklist machine, history-based spec) + scripted-history correspondence'),
 'C13': dict(
    text='Coq theorems over an exact (integer-microsecond) model of utils.serialize_date/parse_date on top of a calendar '
         'bijection proved for ALL ordinals: date-time -> serial -> date-time for every date-time from 1900-01-01, strict '
         'monotonicity, serial = days since 1899-12-30 + fraction from 1 March 1900, serial -> date -> serial for every '
         'serial >= 61, date+n = n days later, date-date = time between. Tied to the code by a per-day correspondence '
         '(every day 1900..9999 in the thorough tier), millisecond date-times and formulas through Parser.parse.',
    design='7/C13',
    note='ideal arithmetic: the implementation works in float milliseconds; whole-day serials are compared exactly, '
         'sub-day ones to 0.5 ms (the property says "to the millisecond"); CPython datetime transcribed and swept.',
    technique='Coq proof (calendar cycle sweep lifted by periodicity, case analysis + lia) + per-day model/implementation correspondence'),
 'C14': dict(
    text='Coq theorems over Model/DateFns.v for every valid date and every integer offset: DATE/TIME components, whole-day '
         'serial components = calendar date of the ordinal, WEEKDAY numberings/#NUM!, DATEDIF m/y/ym against a declarative '
         'whole-months/years spec, EDATE = month-index arithmetic with clamp and #NUM! outside 1900..9999; DAYS/DATEDIF-d = '
         'ordinal difference is proved outside the 1900 phantom-day window and refuted inside it (recorded known finding). '
         'Tied to dateandtime.py by correspondence on days, pairs, offsets, serials and an oracle through Parser.parse.',
    design='7/C14',
    note='partial for DAYS/DATEDIF-d: 1 known finding (pairs straddling 1900-03-01 or touching 1900-01-01T00:00); ISO text goes '
         'through dateutil and is checked by the oracle only; arguments are ints/datetimes.',
    technique='Coq proof (lia with div/mod, calendar lemmas; _refuted witness by vm_compute) + correspondence + oracle'),
 'C07': dict(
    text='Coq theorems over a transcription of ExcelComparator for ALL scalar values (exact rationals, date-times through '
         'their serial, code-point strings, logicals, blank): exactly one of <,=,> ; <=,>=,<> are the derived relations; '
         'a<b iff b>a; transitivity on non-blank values; number/date < text < logical; numeric, serial and lexicographic '
         'order; blank as 0 / "" / FALSE; corollaries for every pair incl. blanks: reflexive, asymmetric, = symmetric, <= total and '
         'antisymmetric. Tied to operators.py by all ordered pairs of a 46-value pool x 6 operators '
         'through Parser.parse plus random pairs; an independent oracle checks the laws on all pairs and triples.',
    design='7/C07',
    note='numbers are exact rationals (Python compares int/float exactly); float serials of date-times are modelled '
         'by the exact serial (pool date-times have exactly representable serials); arrays/errors are outside C07.',
    technique='Coq proof (case analysis on value kinds, order lemmas on Q and code-point lists) + all-pairs correspondence'),
 'C12': dict(
    text='Coq theorems over a transcription of logic.py and the IS* predicates for argument lists of any length and '
         'nesting: AND/OR/XOR = conjunction/disjunction/parity over the flattened leaves, flattening invariant under '
         'regrouping, NOT, IF, IFS first-true, SWITCH first-equal/default/#N/A, an error in a tested condition is the '
         'result, predicates exclusive and exact, ISNONTEXT, ISERROR = ISERR or ISNA, ISEVEN/ISODD parity of the integer '
         'part; over error-free items the order is irrelevant, De Morgan, XOR of two, NOT of NOT; the AND/OR/XOR/NOT/IF source terms regenerated from logic.py denote the model functions. Tied to the code by exhaustive small tuples over a value pool and an oracle through Parser.parse.',
    design='7/C12',
    note='"equal" in SWITCH is Python equality (1 = TRUE = 1.0), which the property text leaves open; text truthiness '
         '(non-empty) is modelled but not claimed by the property.',
    technique='Coq proof (induction over argument lists / nested values) + ast translators for AND/OR/XOR/NOT/IF and the IS* predicates (shape terms proved equal to the model) + exhaustive small-tuple correspondence'),
 'C18': dict(
    text='Coq theorems over a transcription of CHOOSE, INDEX, MATCH for arrays of any size: CHOOSE = vi or an error; INDEX '
         '= the addressed element inside, #REF! - never another element - outside, whole row/column for 0 or omitted; '
         'MATCH 0 = first equal item or #N/A; INDEX(MATCH) inverse; MATCH 1/-1 on ascending/descending numeric arrays = a '
         'position of the largest item <= x / smallest item >= x (scan invariant, duplicates allowed). Tied to '
         'lookupandreference.py by exhaustive small arrays x all indices -10..size+10 and an oracle through Parser.parse '
         'with literal, variable and range-supplied arrays.',
    design='7/C18',
    note='float / numeric-text index arguments and wildcard patterns containing "[" are outside the model; fnmatch and '
         'str.lower are modelled on ASCII.',
    technique='Coq proof (list induction, scan invariant on sorted lists) + exhaustive small-array correspondence'),
 'C06': dict(
    text='Coq theorems over a model of evaluate_arithmetic that interprets the conversion table REGENERATED from the live '
         'code on every run: the table is the reference classification (finite check), operands act through their numeric '
         'value (numbers, TRUE/FALSE 1/0, blank 0, date serials), the result is the exact arithmetic, a date exactly where '
         'the table says, #NUM! before 1900, #VALUE! for other text, #DIV/0! for a zero divisor, + and * commutative on '
         'scalars, arrays element-wise, #VALUE! on a length mismatch (partial: one-element arrays are broadcast - refuted '
         'witness, known finding), & joins text/integer digits/blank. Tied to the code by all ordered pairs of an operand '
         'pool x 5 operators through Parser.parse and an independent oracle.',
    design='7/C06',
    note='ideal arithmetic (floats = exact rationals; single operations compared as correctly rounded, double roundings '
         'within 2^-51); text operands resolved by Python int()/float() and dateutil as oracles; 1 known finding.',
    technique='Coq proof (table certificate by vm_compute, case analysis, Q arithmetic) + generated table + all-pairs correspondence'),
 'C08': dict(
    text='Coq theorems by induction on expression trees of any depth over a model of the eager evaluator: an error operand '
         'of every operator and of unary minus is the result (left first); an error literal / unknown name first in '
         'evaluation order makes the formula report it; errors at the top are reported with an empty result; every error '
         'value produced by an operator, by a function returning it or by a function raising it is observed by IFERROR, '
         'IFNA, ISERROR, ISERR, ISNA, ERROR.TYPE; ISERROR = ISERR or ISNA; IFERROR(x,y) = y iff x is an error. Tied to the '
         'code by random typed trees through Parser.parse and clause-by-clause oracles.',
    design='7/C08',
    note='host functions are modelled as returning or raising an XLError; non-error operator results come from the C06/C07 '
         'models; the LR driver itself (evaluation order) is modelled, not verified.',
    technique='Coq proof (structural induction on expression trees, evaluation-context relation) + ast translator for IFERROR/IFNA/ERROR.TYPE (shape terms proved equal to the model) + random-tree correspondence'),
 'C15': dict(
    text='Coq theorems for strings of any length: LEFT/RIGHT/MID as firstn/skipn with the whole-text, empty and #VALUE! '
         'cases, LEFT&RIGHT split, MID(s,1,n) = LEFT, LEN additive, lengths of slices, three-way LEFT&MID&RIGHT split, slices of a concatenation - and the LEFT/RIGHT/MID source terms regenerated from text.py denote the model functions under Python slice semantics; UPPER/LOWER idempotent and character-wise, lifted from '
         'finite facts about the case table regenerated from the interpreter; uncased characters untouched; PROPER '
         'idempotent under a decidable per-character condition failing exactly on U+0130/U+01F0 (refuted witness, known '
         'finding); TRIM idempotent, keeps every non-space character, normal form; CLEAN = filter; CODE(CHAR n) = n; '
         'CONCATENATE/TEXTJOIN; SUBSTITUTE unchanged when absent, every occurrence, exactly the k-th. Tied to text.py by '
         'random strings over the alphabet and an oracle through Parser.parse.',
    design='7/C15',
    note='alphabet: ASCII + U+0080..U+024F + CJK (no Greek: final-sigma rule); str methods modelled; 1 known finding.',
    technique='Coq proof (list induction; finite table facts by vm_compute lifted to all strings) + generated case table + ast translator for LEFT/RIGHT/MID (slice terms proved equal to the model) + correspondence'),
 'C11': dict(
    text='Coq theorems for item lists of any length and nesting over a transcription of iflatten/inumbers/parse_criteria and '
         'the aggregates (statistics functions as textbook definitions in exact arithmetic): regrouping invariance for every '
         'aggregate, SUM/PRODUCT/AVERAGE/COUNT/VAR/VAR.P/MIN/MAX = definitions, MEDIAN/LARGE read off a sorted permutation, '
         'permutation invariance of sums/products/means/variances/min/max, AVEDEV = mean absolute deviation (order-free), an error item is the result, SUMIF/COUNTIF select '
         'exactly the matching items, *IFS rows = conjunction of all criteria, empty selections. Tied to the code by direct '
         'calls on random grouped lists and an exact-rational oracle through Parser.parse (definitions, regroupings, '
         'permutations, criteria, error items, SLOPE, STDEV/GEOMEAN numerically).',
    design='7/C11',
    note='partial: permutation invariance of MODE, and STDEV*/GEOMEAN (sqrt/log), are validated by the oracle, not proved '
         '(MEDIAN and LARGE are proved order-free by rank counting on sorted arrangements); statistics module modelled by definitions; wildcard patterns without "["; floats exact (dyadic items).',
    technique='Coq proof (list induction, Permutation, sorted insertion) + random grouped-list correspondence + exact-rational oracle'),
 'C17': dict(
    text='Coq theorems: ROUND/ROUNDUP/ROUNDDOWN as integers in units of 10^-digits with the three characterising '
         'inequalities, CEILING/FLOOR adjacent multiples on the documented side for every sign combination, INT = floor, '
         'EVEN/ODD, QUOTIENT truncation, MOD identity and sign, SIGN, FACT/FACTDOUBLE recursions, errors for zero divisors and '
         'negative factorials (exact rational arithmetic); HEX2DEC(DEC2HEX n) = n on the whole 40-bit range and '
         'DECIMAL(BASE(n,r),r) = n for every radix 2..36 by unbounded digit-string lemmas, letter digits, rejections; '
         'ROMAN/ARABIC by exhaustive evaluation of the finite domain 1..3999 x forms 0..4 (bound stated). Tied to the code by '
         'correspondence (ints/dyadics exact, ROMAN/ARABIC exhaustive, radix boundaries) and an oracle through Parser.parse '
         'with a per-call time limit (termination).',
    design='7/C17',
    note='ideal arithmetic for the rounding functions (decimal fractions by oracle with both binary and decimal readings); '
         'int(text, base) modelled on plain digit strings; termination of the real loops is observed (time limit), the model '
         'functions are total by construction.',
    technique='Coq proof (Q floor/ceiling lemmas with lra/lia, digit-string round trips, finite sweep by vm_compute) + correspondence'),
 'C04': dict(
    text='Coq theorems about the LALR tables ply actually uses (regenerated from the live parser on every run): a finite '
         'certificate closed by vm_compute; by induction on trees of any shape and depth, the LR driver parses the tokens of '
         'every well-parenthesised tree (atoms, unary minus, the eleven binary operators, parentheses) to exactly that tree, '
         'and the real driver with the real grammar actions evaluates them to the post-order value of the tree; minimal and '
         'full renderings are well-parenthesised, denote the tree, evaluate identically and equal the exact integer '
         'evaluation; the declared precedence is the usual one. Tied to the code by generated tables plus random trees in '
         'three renderings through Parser.parse vs the interpreter model and vs exact rational evaluation.',
    design='7/C04',
    note='the C04-specific theorems have number literals as atoms; the generalisation to the whole reference grammar (all literal forms, '
         'variables, cells, ranges, calls, arrays) and parentheses-irrelevance over it are Proofs/LRfull.v and Proofs/ParensFull.v; ply '
         'LRParser and the grammar actions are modelled (lr_step, sem_action) and tied by correspondence; a changed '
         'precedence/table breaks the certificate obligation itself.',
    technique='Coq proof (table certificate by vm_compute + structural induction on trees over the generated LR tables) + generated tables + random-tree correspondence'),
 'C05': dict(
    text='Coq theorems over a transcription of the 36 token recognisers and the real LR driver on the generated tables: '
         'integer, decimal, percent and power literals of any length evaluate to exactly the number spelled, a quoted literal '
         'to exactly its content; white space (any amount, possibly none) at ANY subset of the token boundaries never changes the token '
         'sequence when the local next-character condition holds (punctuation before anything; numbers, names, cells, text before white '
         'space / operators / separators / closing brackets; a function name before its parenthesis only); the three separators, chosen independently at every call (any number of arguments that are arbitrary expressions, any nesting), never change record or events; for every present/absent pattern of up to 6 slots the three separators agree and an accepted call passes '
         'exactly the slot list; a flat array literal of any length over arbitrary item expressions is the list of its item values, and a literal with two rows of any length >= 2 the list of the two rows; labels are case-insensitive. Tied to the code by the lexer '
         'correspondence on every string of length <= 3/4 over 26 class representatives and formulas through Parser.parse.',
    design='7/C05',
    note='Python re is modelled by hand-written recognisers (first-match in ply rule order, validated against the real lexer); '
         'white space inside multi-character tokens or between a function name and "(" is outside the property; 1 known finding '
         '(content ending in a backslash followed later by another quote).',
    technique='Coq proof (induction on digit strings / token lists, finite slot-pattern sweep by vm_compute on the generated tables) + exhaustive short-string lexer correspondence'),
 'C09': dict(
    text='Coq theorems: the real LR driver over the generated tables, with the real grammar actions and host callbacks, runs '
         'every well-parenthesised expression (numbers, variables, cells, ranges, calls with any arguments, operators; any '
         'size and nesting) to its post-order evaluation; names of the class good_name lex as one VARIABLE token and evaluate '
         'to the registered value, unknown ones to #NAME?; a custom function wins over a built-in, is called once per call '
         'site with the evaluated arguments in order; every documented name (generated from SUPPORTED_FORMULAS.md) is in the '
         'generated registry; an unknown name at any position never yields a value. Tied to the code by names x values, '
         'unknown names at random positions and inside error-trapping built-ins, call logs, shadowed built-ins.',
    design='7/C09',
    note='arbitrary Python objects as variable values are checked by the oracle (identity), the model carries the spreadsheet '
         'value types; 1 known finding (identifier-shaped names that do not lex as one VARIABLE token: x1y, _1, non-ASCII).',
    technique='Coq proof (LR certificate by vm_compute + nested structural induction over expressions on the generated tables; lexer case analysis) + generated registry + correspondence'),
 'C10': dict(
    text='Coq theorems: for every well-parenthesised expression over numbers, variables, cells, ranges, calls, operators and '
         'parentheses the real LR driver on the generated tables emits exactly the events of the post-order evaluation (one per '
         'reference, left to right, arguments before their call); a cell event carries the upper-cased label, zero-based '
         'row/column and markers for every label of the label grammar, and the label is the label of those coordinates; a range '
         'event carries the min/max corners in every corner order; the setter keeps the last value other than None. Tied to '
         'the code by random reference-mixing formulas on random hosts, a label sweep, rectangles in four corner orders and all '
         'short setter scripts, against the model and an oracle computed from the generating tree.',
    design='7/C10',
    note='listeners are modelled as scripts (values handed to the setter, in order), one listener per event kind; delivery to '
         'several listeners is C20.',
    technique='Coq proof (LR certificate + nested structural induction with event traces; label lemmas of C19) + generated tables + correspondence'),
 'C01': dict(
    text='Coq theorems: every step of the real LR driver over the generated tables strictly decreases a potential bounded by '
         '8*tokens+3, for every host, stack and input (certificate on the tables: no empty production, unit reductions lower '
         'the potential), so the driver stops by itself; the lexer consumes input at every step; for every host and every text '
         'the record is well formed (result never an error object; errors are the nine codes); the generated from_message table '
         'is closed over the nine spellings with #ERROR! as default; the shape of Parser.parse (catch-all -> from_message, no '
         're-raise, error result moved, two keys) is generated from the source (fail-closed ast translator). Tied to the code '
         'by token soups, every registered function at arity 0..4 over a 47-value pool under a time limit, and raising / '
         'hostile callbacks.',
    design='7/C01',
    note='partial: the ~130 built-in bodies outside the model enter the theorems as an arbitrary oracle (host field h_oracle: any '
         'value, raised error or exception) - the record and driver theorems hold whatever they return, PROVIDED they return; that '
         'they do return is observed (sweep with a 4 s limit), not proved; bignum work growing with the magnitude of an integer argument (FACT, POWER, 10**digits, PV) is '
         'exercised with magnitudes <= 1e5; ply error recovery on a SyntaxError raised by a host callback is not modelled.',
    technique='Coq proof (potential function certified by vm_compute on the generated LR tables, strong induction on fuel) + ast translator for the wrapper + sweep'),
 'C02': dict(
    text='Coq theorems over a session model with explicit lexer objects, parameterised by facts generated from the source '
         '(private lexer clone per evaluation, release_tracebacks() in the finally clause, self.debug only prints, no module-level '
         'state): for every history of registrations and evaluations on a parser each evaluation returns what a fresh parser with the '
         'same bindings returns; nothing is retained over any history of any length (linear growth without the release: refuted). '
         'Tied to the code by random histories (valid, failing, callback-raising; debug on/off) vs fresh parsers and vs the '
         'interpreter model, deep equality of host lists around every built-in and operator, live traceback/frame counts.',
    design='7/C02',
    note='partial: non-mutation of host-supplied lists and retention in the Python object graph cannot be exhibited by a model with '
         'immutable values - they are decided by the oracle (deep equality, gc object counts), the theorem covers the '
         'history-independence and the release logic; NOW/TODAY/RAND/RANDBETWEEN excluded.',
    technique='Coq proof (invariant over lexer-object store, induction over histories) + ast translator for the state facts + history correspondence'),
 'C03': dict(
    text='Coq theorems over the session model: with a private lexer object per evaluation (generated fact), evaluations nested to '
         'depth 2 at ANY fetch positions, on the same or another parser, and two threads under ANY schedule of single fetches, each '
         'read exactly the tokens of their own text and leave older lexer objects untouched; with the global lexer object both are '
         'refuted by computation. Tied to the code by all outer shapes x hook kinds x inner formulas x {other, same parser} x depth '
         '1-2 vs solo outcomes, registration invisibility, and threaded runs with a 1 us switch interval.',
    design='7/C03',
    note='partial: the model interleaves whole token fetches; the real scheduler switches at bytecode boundaries inside ply and the '
         'built-ins - that granularity is only exercised (threaded runs), not modelled; per-instance state is established by the '
         'generated facts (ast), not by a proof about the Python object graph.',
    technique='Coq proof (footprint invariant over a lexer-object store, induction over schedules; refutation by vm_compute) + ast translator + nested/threaded runs'),
 'C16': dict(
    text='Coq theorems (Reals) over the bodies of the 27 functions, translated from the Python source on every run into a small '
         'expression language whose meaning is Python arithmetic and the math module on real arguments: each function is the '
         'mathematical function on its domain and raises outside it, for ALL reals; sin^2+cos^2=1, TAN=SIN/COS, COT=1/TAN, EXP/LN, '
         'LOG=LN/LN; eight inverse pairs (ASIN/SIN, ACOS/COS, ATAN/TAN, ASINH/SINH, ACOSH/COSH, ATANH/TANH in both directions, COT/ACOT) undo each other on the principal ranges; ATAN2 is the angle of the point in (-pi, pi], '
         '#DIV/0! exactly at the origin; PV satisfies the annuity equation (linear form at rate 0). Tied to the code by the '
         'translator and by grids + random reals against a 60-digit reference, identities, coercions, RAND ranges.',
    design='7/C16',
    note='ideal real arithmetic: "within floating-point rounding" is measured by the oracle (relative 1e-9), not proved; the PyMath '
         'contract is trusted; uses the standard library axioms of the reals (sig_not_dec, sig_forall_dec, '
         'functional_extensionality_dep, classic); coercion of text/logicals and RAND/RANDBETWEEN are oracle-only.',
    technique='Coq proof over Reals (lra/nra/field, stdlib inverse-function lemmas) on bodies regenerated by an ast translator + high-precision oracle'),
}
PENDING = {}
def main():
    props = [json.loads(l) for l in open(os.path.join(V, 'properties.jsonl'))]
    checks, na = [], []
    for p in props:
        i = p['id']
        if i in CHECKS:
            c = CHECKS[i]
            checks.append({
                'property_id': i,
                'quick_cmd': './check %s --tier quick' % i,
                'thorough_cmd': './check %s --tier thorough' % i,
                'evidence_file': '/verif/evidence/%s.json' % i,
                'replay_cmd_template': './check %s --replay {path}' % i,
                'engine': 'coq-model+correspondence',
                'level_claimed': {'category': 'proof', 'text': c['text'], 'design_ref': c['design']},
                'level_note': c['note'],
                'technique': c['technique'],
            })
        else:
            na.append({'property_id': i, 'reason': PENDING.get(i, 'check not built yet (work in progress this round); '
                       'the technique applies, see DESIGN.md section 7')})
    m = {
        'version': 1,
        'setup_cmd': 'bash /verif/tools/setup.sh',
        'hooks': {'guard': 'AIDHOUND_HOTXLFP_VERIF', 'enable': 'no hooks are needed: every observation goes through '
                  'the public API of a snapshot copy of /repo (checks export AIDHOUND_HOTXLFP_VERIF=1 for uniformity)',
                  'baseline_off_cmd': 'cd /repo && /venv/bin/python -m pytest -ra -q -p no:cacheprovider --timeout=900',
                  'source_commits': [], 'add_only': True},
        'engines': [{'name': 'coq-model+correspondence', 'path': '/verif/check',
                     'serves_properties': sorted(CHECKS),
                     'kind_free_text': 'Coq 8.16 model + theorems (coq/), extracted OCaml runner (ocaml/), Python '
                                       'correspondence harness and property oracles (tools/)'}],
        'checks': checks,
        'not_applicable': na,
        'notes': 'See DESIGN.md section 0 (as built). known_findings.json: 39 fixed entries (one fix: commit each in /repo, suppressing nothing) and 6 known findings (C05, C06, C09, C14, C15, C19) for which the checks print KNOWN-FINDING lines and exit 0. seeded/: 163 confirmed breaking changes (ten rounds, written by sub-agents from the property text alone) with the checks that catch them (seeded/RESULTS.json); translator ties (tools/gen/*.py -> coq/Gen/*.v) are regenerated from /repo on every run. No hooks in /repo.',
    }
    json.dump(m, open(os.path.join(V, 'MANIFEST.json'), 'w'), indent=1)
if __name__ == '__main__':
    main()
