(* C06 — Arithmetic and concatenation follow the implicit type-conversion table.
   Property theorems only; proofs are in Proofs/OperatorsProofs.v.  The conversion table is
   Gen/ConvTable.v, regenerated from the live operators.IMPLICIT_DATA_TYPE_CONVERSIONS on every run. *)
From HX Require Import Model.Value Model.Serial Model.Comparator Model.Operators Proofs.OperatorsProofs.
From Coq Require Import QArith.
Open Scope Z_scope.

(* the generated table is the reference classification: number/serial/zero converters per operand kind,
   a date result exactly for date op number|blank and number|blank op date (but not date/blank, blank/date) *)
Theorem C06_table_is_reference :
  conv_gen_ok = true /\
  forallb (fun op => forallb (fun l => forallb (fun r => table_row_ok op l r) kinds) kinds) [0; 1; 2; 3] = true.
Proof. exact table_is_reference. Qed.

(* each operand acts through its numeric value *)
Theorem C06_operand_values :
  (forall z, opnum (classify (VInt z)) = Some (NI z)) /\ (forall q, opnum (classify (VFlt q)) = Some (NF q)) /\
  opnum (classify (VBool true)) = Some (NI 1) /\ opnum (classify (VBool false)) = Some (NI 0) /\
  opnum (classify VBlank) = Some (NI 0) /\
  (forall t, opnum (classify (VDate t)) = Some (serialize_num t)) /\
  (forall t, (num_q (serialize_num t) == serial_q t)%Q).
Proof. exact operand_values. Qed.

(* the result is the exact arithmetic on those values, a date exactly where the table says so,
   #DIV/0! for a zero divisor *)
Theorem C06_scalar_arithmetic : forall op l r a b lk rk, 0 <= op <= 3 ->
  kind_of (classify l) = Some lk -> kind_of (classify r) = Some rk ->
  opnum (classify l) = Some a -> opnum (classify r) = Some b ->
  arith_scalar op l r =
    match arith_num op a b with
    | None => Ret (VErr EDIV0)
    | Some n => if result_is_date op lk rk then parse_num n else Ret (num_value n)
    end.
Proof. exact arith_scalar_spec. Qed.
Theorem C06_exact : forall op a b n, 0 <= op <= 3 -> arith_num op a b = Some n ->
  (num_q n == q_op op (num_q a) (num_q b))%Q.
Proof. exact arith_num_exact. Qed.
Theorem C06_zero_divisor : forall l r a b lk rk, kind_of (classify l) = Some lk -> kind_of (classify r) = Some rk ->
  opnum (classify l) = Some a -> opnum (classify r) = Some b -> (num_q b == 0)%Q ->
  arith_scalar 3 l r = Ret (VErr EDIV0).
Proof. exact zero_divisor. Qed.
Theorem C06_pre1900_is_NUM : forall n, (num_q n < 0)%Q -> parse_num n = Ret (VErr ENUM).
Proof. exact pre1900_is_NUM. Qed.
Theorem C06_nonnumeric_text_is_VALUE : forall op s v, 0 <= op <= 3 -> text_number s = None ->
  arith_scalar op (VText s) v = Ret (VErr EVALUE) /\ arith_scalar op v (VText s) = Ret (VErr EVALUE).
Proof. exact nonnumeric_text_is_VALUE. Qed.
(* text spelling a number acts as that number (plain decimals: [+-]digits[.digits]; a digit string is its integer) *)
Theorem C06_numeric_text : forall s n, text_number s = Some n -> classify (VText s) = OpNum n /\ opnum (classify (VText s)) = Some n.
Proof. exact numeric_text_value. Qed.
Theorem C06_integer_text : forall s, s <> [] -> all_digits_z s = true -> text_number s = Some (NI (digits_value s)).
Proof. exact integer_text_value. Qed.

(* + and * are commutative (scalars) *)
Theorem C06_plus_mult_commutative : forall op l r, op = 0 \/ op = 2 -> arith_scalar op l r = arith_scalar op r l.
Proof. exact plus_mult_commutative. Qed.

(* arrays: element-wise with scalars and equal-length arrays, #VALUE! on a length mismatch *)
Theorem C06_array_scalar : forall f op la r, scalar r ->
  eval_arith (S f) op (VList la) r = list_outcome (map_outcome (fun a => eval_arith f op a r) la).
Proof. exact array_scalar. Qed.
Theorem C06_array_array_equal : forall f op la lb, length lb = length la -> length lb <> 1%nat ->
  eval_arith (S f) op (VList la) (VList lb) = list_outcome (map2_outcome (eval_arith f op) la lb).
Proof. exact array_array_equal. Qed.
Theorem C06_array_length_mismatch_partial : forall f op la lb, length lb <> length la -> length lb <> 1%nat ->
  eval_arith (S f) op (VList la) (VList lb) = Ret (VErr EVALUE).
Proof. exact array_length_mismatch. Qed.
(* the full statement (every mismatch) is false of the faithful model: recorded known finding *)
Theorem C06_array_length_mismatch_refuted : exists la lb, length lb <> length la /\
  eval_arith 5 0 (VList la) (VList lb) <> Ret (VErr EVALUE).
Proof. exact array_length_mismatch_refuted. Qed.

(* & joins its operands as text: text verbatim, integers as their digits, blank as nothing *)
Theorem C06_amp : forall l r a b, is_err l = false -> is_err r = false -> amp_text l = Some a -> amp_text r = Some b ->
  eval_amp l r = Ret (VText (a ++ b)).
Proof. exact amp_joins. Qed.
Theorem C06_amp_text : (forall s, amp_text (VText s) = Some s) /\ (forall z, amp_text (VInt z) = Some (dec_text_of z)) /\
  amp_text VBlank = Some [].
Proof. exact amp_text_spec. Qed.

Example C06_examples :
  arith_scalar 0 (VDate (DT 1900 3 1 0 0 0 0)) (VInt 1) = Ret (VDate (DT 1900 3 2 0 0 0 0)) /\
  (exists q, arith_scalar 1 (VDate (DT 2020 1 2 0 0 0 0)) (VDate (DT 2020 1 1 0 0 0 0)) = Ret (VFlt q) /\ (q == 1)%Q) /\
  arith_scalar 1 (VInt 1) (VDate (DT 2020 1 1 0 0 0 0)) = Ret (VErr ENUM) /\
  arith_scalar 2 (VBool true) (VFlt (5#2)) = Ret (VFlt (5#2)) /\
  arith_scalar 3 (VInt 1) VBlank = Ret (VErr EDIV0) /\
  arith_scalar 0 VBlank VBlank = Ret (VInt 0) /\
  eval_arith 5 0 (VList [VInt 1; VInt 2]) (VInt 10) = Ret (VList [VInt 11; VInt 12]) /\
  eval_arith 5 1 (VInt 10) (VList [VInt 1; VInt 2]) = Ret (VList [VInt 9; VInt 8]) /\
  eval_arith 5 0 (VList [VInt 1; VInt 2]) (VList [VInt 1; VInt 2; VInt 3]) = Ret (VErr EVALUE) /\
  eval_amp (VText [97]) (VInt (-12)) = Ret (VText [97; 45; 49; 50]).
Proof. repeat split; try (vm_compute; reflexivity). eexists; split; [vm_compute; reflexivity|reflexivity]. Qed.

Print Assumptions C06_table_is_reference.
Print Assumptions C06_scalar_arithmetic.
Print Assumptions C06_exact.
Print Assumptions C06_plus_mult_commutative.
Print Assumptions C06_array_array_equal.
Print Assumptions C06_array_length_mismatch_partial.
Print Assumptions C06_array_length_mismatch_refuted.
Print Assumptions C06_amp.
