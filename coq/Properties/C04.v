(* C04 — Precedence, associativity and parentheses determine expression structure.
   Property theorems only; proofs are in Proofs/LRcert.v (structure) and Proofs/LRvalue.v (values).
   The LALR tables, productions and precedence are Gen/Grammar.v, regenerated from the live ply parser on every run. *)
From HX Require Import Model.Base Model.Lexer Model.Value Model.Operators Model.Interp Proofs.LRcert Proofs.LRvalue Proofs.LRfull Proofs.ParensFull.
From Coq Require Import Lia.
Open Scope Z_scope.

(* the finite certificate about the generated tables (closed by computation) *)
Theorem C04_certificate : cert = true.
Proof. exact cert_ok. Qed.

(* the declared precedence is the usual one: unary minus tightest, then * /, then + -, then the comparisons;
   & binds tighter than every comparison; operators of equal level are left-associative (wp demands a strictly higher
   level on the right) *)
Theorem C04_precedence_is_usual :
  lvl Mult = lvl Div /\ lvl Plus = lvl Minus /\ (lvl Plus < lvl Mult)%nat /\
  (forall c, In c [Gt; Lt; Ge; Le; Eq; Ne] -> (lvl c < lvl Plus)%nat /\ (lvl c < lvl Amp)%nat) /\
  (forall b, (lvl b < Z.to_nat uminus_level)%nat).
Proof. exact prec_is_usual. Qed.

(* structure: the driver over the real tables parses the tokens of every well-parenthesised tree, of any shape and
   depth, to exactly that tree *)
Theorem C04_parses_tree : forall t, wp t ->
  forall (st : stack) (r : list token) q,
    ES (top st) -> goto_E (top st) = Some q -> enter_ok q t -> follow_ok t (la r) ->
    steps (st, toks t ++ r) ((q, STree t) :: st, r).
Proof. exact lr_parses_tree. Qed.
Theorem C04_parses_formula : forall t, wp t -> steps ([], toks t) ([(q0, STree t)], []).
Proof. exact parses_from_start. Qed.

(* values: the REAL driver with the real grammar actions evaluates the tokens of a well-parenthesised tree to the
   (post-order) value of the tree *)
Theorem C04_formula_value : forall h t v, wp t -> tree_val t = ROk v ->
  forall fuel, (nsteps t + 2 <= fuel)%nat -> lr_run h fuel [] (toks t) false [] = (ROk v, []).
Proof. exact formula_value. Qed.
Theorem C04_parse_formula_value : forall h s t v, s <> [] -> lex s = LexOk (toks t) -> wp t -> tree_val t = ROk v ->
  parse_formula h s = (match v with VErr e => PError e | _ => PResult v end, []).
Proof. exact parse_formula_value. Qed.

(* redundant parentheses never change the value; the minimal and the full rendering of a tree are well-parenthesised,
   denote that tree, and evaluate identically *)
Theorem C04_parens_irrelevant : forall t, tree_val t = utree_val (strip t).
Proof. exact parens_irrelevant. Qed.
Theorem C04_renderings_wellformed : forall u, wp (render_min u) /\ wp (render_full u) /\
  strip (render_min u) = u /\ strip (render_full u) = u.
Proof. intros u. destruct (strip_render u). repeat split; auto using wp_render_min, wp_render_full. Qed.
Theorem C04_renderings_agree : forall u, tree_val (render_min u) = utree_val u /\ tree_val (render_full u) = utree_val u.
Proof. exact renderings_agree. Qed.
(* ... and equal an independent exact evaluation of the tree (integer leaves, + - * and unary minus) *)
Theorem C04_exact_integer_value : forall u z, int_tree u = Some z -> utree_val u = ROk (VInt z).
Proof. exact int_tree_exact. Qed.

Example C04_examples :
  render_min (UBin Mult (UBin Plus (UAtom [49]) (UAtom [50])) (UAtom [51])) =
    Bin Mult (Par (Bin Plus (Atom [49]) (Atom [50]))) (Atom [51]) /\
  render_min (UBin Plus (UAtom [49]) (UBin Mult (UAtom [50]) (UAtom [51]))) =
    Bin Plus (Atom [49]) (Bin Mult (Atom [50]) (Atom [51])) /\
  render_min (UBin Minus (UAtom [49]) (UBin Minus (UAtom [50]) (UAtom [51]))) =
    Bin Minus (Atom [49]) (Par (Bin Minus (Atom [50]) (Atom [51]))) /\
  render_min (UNeg (UBin Mult (UAtom [50]) (UAtom [51]))) = Neg (Par (Bin Mult (Atom [50]) (Atom [51]))) /\
  tree_val (Bin Minus (Atom [49]) (Bin Mult (Neg (Atom [50])) (Atom [51]))) = ROk (VInt 7) /\
  wp (Bin Minus (Atom [49]) (Bin Mult (Neg (Atom [50])) (Atom [51]))).
Proof. repeat split; try (vm_compute; reflexivity); vm_compute; lia. Qed.


(* ---------- the whole reference grammar (Proofs/LRfull.v): atoms may be numbers in every literal form, text, error
   literals, variables, cells, ranges, calls with any arguments and separators, array literals ---------- *)
Theorem C04_structure_over_the_whole_grammar : forall h e, xwp e ->
  forall st rest q, In (top_state st) es_list -> goto_E (top_state st) = Some q -> xenter_ok q e -> xfollow_ok e (la rest) ->
    reachle h (xsteps e) (st, xtoks e ++ rest) (snd (xval h e)) (tgt (fun v => ((q, SVval v) :: st, rest)) (fst (xval h e))).
Proof. exact lr_runs_expr. Qed.
Theorem C04_parentheses_do_not_change_the_value : forall h e, xval h (xstrip e) = xval h e.
Proof. exact parentheses_do_not_change_the_value. Qed.
Theorem C04_same_tree_same_outcome : forall h e e' s s', xstrip e = xstrip e' ->
  s <> [] -> lex s = LexOk (xtoks e) -> xwp e -> s' <> [] -> lex s' = LexOk (xtoks e') -> xwp e' ->
  parse_formula h s = parse_formula h s'.
Proof. exact same_tree_same_outcome. Qed.

Print Assumptions C04_certificate.
Print Assumptions C04_precedence_is_usual.
Print Assumptions C04_parses_tree.
Print Assumptions C04_formula_value.
Print Assumptions C04_parse_formula_value.
Print Assumptions C04_renderings_wellformed.
Print Assumptions C04_renderings_agree.
Print Assumptions C04_exact_integer_value.
Print Assumptions C04_structure_over_the_whole_grammar.
Print Assumptions C04_same_tree_same_outcome.
