(* Lemmas for C19: bijective base-26 column labels, row labels, label
   decomposition / recomposition. *)
From HX Require Import Model.Base Model.Cell Proofs.Digits.
From Coq Require Import Lia.
Ltac Zify.zify_post_hook ::= Z.div_mod_to_equations.

Definition Hc (l : text) : Z := of_digits 26 (map col_digit l).

Lemma fold_left_map {A B C} (f : A -> C -> A) (g : B -> C) l a :
  fold_left (fun x y => f x (g y)) l a = fold_left f (map g l) a.
Proof. revert a. induction l as [|y l IH]; intros a; cbn; [reflexivity|apply IH]. Qed.

Lemma col_label_to_index_Hc l : col_label_to_index l = Hc l - 1.
Proof.
  unfold col_label_to_index, Hc, of_digits.
  rewrite <- (fold_left_map (fun a d => a * 26 + d) col_digit). reflexivity.
Qed.

Lemma Hc_cons c l : Hc (c :: l) = col_digit c * 26 ^ Z.of_nat (length l) + Hc l.
Proof. unfold Hc. cbn [map]. rewrite of_digits_cons, map_length. reflexivity. Qed.

Lemma Hc_snoc l c : Hc (l ++ [c]) = Hc l * 26 + col_digit c.
Proof. unfold Hc. rewrite map_app. cbn [map]. apply of_digits_snoc. Qed.

Lemma col_digit_upper d : 0 <= d < 26 -> col_digit (d + 65) = d + 1.
Proof.
  intros Hd. unfold col_digit, upper_ascii, is_lower, is_upper.
  replace ((97 <=? d + 65) && (d + 65 <=? 122)) with false by lia.
  replace ((65 <=? d + 65) && (d + 65 <=? 90)) with true by lia. lia.
Qed.

(* loop invariant: (col+1) * 26^|acc| + Hc acc is preserved; the loop ends at col = -1 *)
Lemma col_loop_inv : forall fuel col acc,
  -1 <= col -> col + 1 < 2 ^ Z.of_nat fuel ->
  Hc (col_loop fuel col acc) = (col + 1) * 26 ^ Z.of_nat (length acc) + Hc acc.
Proof.
  induction fuel as [|f IH]; intros col acc Hlo Hhi.
  - cbn in Hhi. assert (col = -1) by lia. subst. cbn [col_loop]. lia.
  - cbn [col_loop]. destruct (col <? 0) eqn:E.
    + assert (col = -1) by lia. subst. lia.
    + rewrite IH.
      * rewrite Hc_cons. cbn [length]. rewrite Nat2Z.inj_succ, Z.pow_succ_r by lia.
        rewrite col_digit_upper by (apply Z.mod_pos_bound; lia).
        assert (col = 26 * (col / 26) + col mod 26) by (apply Z.div_mod; lia).
        nia.
      * assert (0 <= col / 26) by (apply Z.div_pos; lia). lia.
      * rewrite Nat2Z.inj_succ, Z.pow_succ_r in Hhi by lia.
        assert (col / 26 <= col / 2) by (apply Z.div_le_compat_l; lia).
        assert (col / 2 < 2 ^ Z.of_nat f) by (apply Z.div_lt_upper_bound; lia). lia.
Qed.

Lemma col_fuel_ok col : 0 <= col -> col + 1 < 2 ^ Z.of_nat (col_fuel col).
Proof.
  intros Hcol. unfold col_fuel. rewrite Nat2Z.inj_succ, Z2Nat.id by apply Z.log2_up_nonneg.
  rewrite Z.pow_succ_r by apply Z.log2_up_nonneg.
  assert (col + 2 <= 2 ^ Z.log2_up (col + 2)) by (apply Z.log2_up_spec; lia). lia.
Qed.

Theorem col_rt1 : forall col, 0 <= col -> col_label_to_index (col_index_to_label col) = col.
Proof.
  intros col Hcol. rewrite col_label_to_index_Hc. unfold col_index_to_label.
  rewrite col_loop_inv; [|lia|apply col_fuel_ok; exact Hcol]. cbn. lia.
Qed.

(* ----- the other direction ----- *)
Definition letters (l : text) : Prop := Forall (fun c => is_alpha c = true) l.

Lemma col_digit_alpha c : is_alpha c = true -> 1 <= col_digit c <= 26 /\ col_digit c - 1 + 65 = upper_ascii c.
Proof.
  unfold is_alpha, col_digit, upper_ascii, is_upper, is_lower. intros H.
  destruct ((97 <=? c) && (c <=? 122)) eqn:El.
  - replace ((65 <=? c - 32) && (c - 32 <=? 90)) with true by lia. lia.
  - destruct ((65 <=? c) && (c <=? 90)) eqn:Eu; [lia|]. cbn in H. congruence.
Qed.

Lemma Hc_nonneg l : letters l -> 0 <= Hc l.
Proof.
  induction l as [|c l IH] using rev_ind; intros Hl; [cbn; lia|].
  apply Forall_app in Hl as [Hl Hc1]. inversion Hc1 as [|? ? Hcr _]; subst.
  rewrite Hc_snoc. pose proof (col_digit_alpha c Hcr). specialize (IH Hl). lia.
Qed.

Lemma col_loop_letters : forall l fuel acc, letters l ->
  Hc l < 2 ^ Z.of_nat fuel ->
  col_loop fuel (Hc l - 1) acc = map upper_ascii l ++ acc.
Proof.
  induction l as [|c l IH] using rev_ind; intros fuel acc Hl Hf.
  - cbn. destruct fuel; reflexivity.
  - apply Forall_app in Hl as [Hl Hc1]. inversion Hc1 as [|? ? Hcr _]; subst.
    rewrite Hc_snoc in *. pose proof (Hc_nonneg l Hl) as Hnn.
    destruct (col_digit_alpha c Hcr) as [Hrange Hup].
    destruct fuel as [|f].
    + cbn in Hf. lia.
    + cbn [col_loop]. replace (Hc l * 26 + col_digit c - 1 <? 0) with false by lia.
      replace ((Hc l * 26 + col_digit c - 1) / 26 - 1) with (Hc l - 1) by lia.
      replace ((Hc l * 26 + col_digit c - 1) mod 26 + 65) with (upper_ascii c) by lia.
      rewrite IH; [rewrite map_app, <- app_assoc; reflexivity|exact Hl|].
      rewrite Nat2Z.inj_succ, Z.pow_succ_r in Hf by lia. lia.
Qed.

Lemma Hc_pos l : l <> [] -> letters l -> 1 <= Hc l.
Proof.
  intros Hne Hl. destruct l as [|c l'] using rev_ind; [congruence|]. rewrite Hc_snoc.
  apply Forall_app in Hl as [Hl Hc1]. inversion Hc1 as [|? ? Hcr _]; subst.
  pose proof (Hc_nonneg _ Hl). pose proof (col_digit_alpha c Hcr). lia.
Qed.

Theorem col_rt2 : forall l, l <> [] -> letters l ->
  col_index_to_label (col_label_to_index l) = map upper_ascii l.
Proof.
  intros l Hne Hl. rewrite col_label_to_index_Hc. unfold col_index_to_label.
  rewrite col_loop_letters; [apply app_nil_r|exact Hl|].
  pose proof (Hc_pos l Hne Hl).
  pose proof (col_fuel_ok (Hc l - 1) ltac:(lia)) as F.
  replace (Hc l - 1 + 1) with (Hc l) in F by lia. exact F.
Qed.

Lemma col_index_nonneg l : l <> [] -> letters l -> 0 <= col_label_to_index l.
Proof. intros. rewrite col_label_to_index_Hc. pose proof (Hc_pos l); lia. Qed.

(* case-insensitivity *)
Lemma upper_ascii_idem c : upper_ascii (upper_ascii c) = upper_ascii c.
Proof. unfold upper_ascii, is_lower. destruct ((97 <=? c) && (c <=? 122)) eqn:E; [|rewrite E; reflexivity].
  replace ((97 <=? c - 32) && (c - 32 <=? 122)) with false by lia. reflexivity. Qed.

Lemma col_digit_case c : col_digit (upper_ascii c) = col_digit c.
Proof. unfold col_digit. rewrite upper_ascii_idem. reflexivity. Qed.

Theorem col_case l : col_label_to_index (map upper_ascii l) = col_label_to_index l.
Proof.
  rewrite !col_label_to_index_Hc. unfold Hc. rewrite map_map.
  rewrite (map_ext _ col_digit) by apply col_digit_case. reflexivity.
Qed.

(* injective up to case, surjective onto the non-negative integers *)
Theorem col_injective l1 l2 : l1 <> [] -> l2 <> [] -> letters l1 -> letters l2 ->
  col_label_to_index l1 = col_label_to_index l2 -> map upper_ascii l1 = map upper_ascii l2.
Proof. intros N1 N2 L1 L2 E. rewrite <- (col_rt2 l1), <- (col_rt2 l2) by assumption. rewrite E. reflexivity. Qed.

Lemma col_loop_upper : forall fuel col acc,
  Forall (fun c => is_upper c = true) acc -> Forall (fun c => is_upper c = true) (col_loop fuel col acc).
Proof.
  induction fuel as [|f IH]; intros col acc Hacc; cbn [col_loop]; [exact Hacc|].
  destruct (col <? 0) eqn:E; [exact Hacc|]. apply IH. constructor; [|exact Hacc].
  unfold is_upper. pose proof (Z.mod_pos_bound col 26 ltac:(lia)). lia.
Qed.

Lemma col_loop_nonempty : forall fuel col acc, acc <> [] -> col_loop fuel col acc <> [].
Proof.
  induction fuel as [|f IH]; intros col acc Hacc; cbn [col_loop]; [exact Hacc|].
  destruct (col <? 0); [exact Hacc|]. apply IH. congruence.
Qed.

Theorem col_surjective col : 0 <= col ->
  let l := col_index_to_label col in
  l <> [] /\ Forall (fun c => is_upper c = true) l /\ col_label_to_index l = col.
Proof.
  intros Hcol l. split; [|split].
  - unfold l, col_index_to_label, col_fuel. cbn [col_loop].
    replace (col <? 0) with false by lia. apply col_loop_nonempty. congruence.
  - apply col_loop_upper. constructor.
  - apply col_rt1. exact Hcol.
Qed.

(* ----- order: shortlex on upper-case labels = numeric order on indices ----- *)
Fixpoint S26 (k : nat) : Z := match k with O => 0 | S k' => 26 * S26 k' + 1 end.

Lemma Hc_range l : letters l -> S26 (length l) <= Hc l <= 26 * S26 (length l).
Proof.
  induction l as [|c l IH] using rev_ind; intros Hl; [cbn; lia|].
  apply Forall_app in Hl as [Hl Hc1]. inversion Hc1 as [|? ? Hcr _]; subst.
  rewrite Hc_snoc, app_length. cbn [length]. rewrite Nat.add_1_r. cbn [S26].
  pose proof (col_digit_alpha c Hcr). specialize (IH Hl). lia.
Qed.

Lemma S26_mono a b : (a < b)%nat -> 26 * S26 a < S26 b.
Proof.
  intros Hab. induction Hab as [|b Hab IH]; cbn [S26]; [lia|].
  assert (0 <= S26 b) by (clear; induction b; cbn [S26]; lia). lia.
Qed.

Theorem col_shorter_smaller l1 l2 : letters l1 -> letters l2 ->
  (length l1 < length l2)%nat -> col_label_to_index l1 < col_label_to_index l2.
Proof.
  intros L1 L2 Hlen. rewrite !col_label_to_index_Hc.
  pose proof (Hc_range l1 L1). pose proof (Hc_range l2 L2). pose proof (S26_mono _ _ Hlen). lia.
Qed.

(* same length: first differing letter decides *)
Theorem col_lex p c1 c2 s1 s2 : letters (p ++ c1 :: s1) -> letters (p ++ c2 :: s2) ->
  length s1 = length s2 -> upper_ascii c1 < upper_ascii c2 ->
  col_label_to_index (p ++ c1 :: s1) < col_label_to_index (p ++ c2 :: s2).
Proof.
  intros L1 L2 Hlen Hlt. rewrite !col_label_to_index_Hc. unfold Hc.
  rewrite !map_app. cbn [map]. rewrite !of_digits_app. cbn [length]. rewrite !map_length, <- Hlen.
  rewrite !of_digits_cons, !map_length, <- Hlen.
  apply Forall_app in L1 as [_ L1]. apply Forall_app in L2 as [_ L2].
  inversion L1 as [|? ? A1 B1]; inversion L2 as [|? ? A2 B2]; subst.
  pose proof (Hc_range s1 B1) as R1. pose proof (Hc_range s2 B2) as R2. unfold Hc in R1, R2.
  rewrite <- Hlen in R2.
  destruct (col_digit_alpha c1 A1) as [? U1]. destruct (col_digit_alpha c2 A2) as [? U2].
  assert (col_digit c1 + 1 <= col_digit c2) by lia.
  set (P := 26 ^ Z.of_nat (length s1)) in *.
  assert (26 * S26 (length s1) < P + S26 (length s1)) as Hkey.
  { subst P. clear. induction (length s1) as [|k IH]; [cbn; lia|].
    rewrite Nat2Z.inj_succ, Z.pow_succ_r by lia. cbn [S26]. lia. }
  assert ((col_digit c1 + 1) * P <= col_digit c2 * P) by (apply Z.mul_le_mono_nonneg_r; subst P; [apply Z.pow_nonneg|]; lia).
  lia.
Qed.

(* ----- rows ----- *)
Theorem row_rt n : 0 <= n ->
  row_index_to_label n = dec_text_of (n + 1) /\ row_label_to_index (row_index_to_label n) = n.
Proof.
  intros Hn. unfold row_index_to_label. replace (0 <=? n) with true by lia. split; [reflexivity|].
  unfold row_label_to_index.
  pose proof (dec_text_nonempty (n + 1)). destruct (dec_text_of (n + 1)) eqn:E; [congruence|].
  rewrite <- E. rewrite dec_text_all_digits, dec_value_of_text by lia. lia.
Qed.

(* ----- decomposition / recomposition ----- *)
Lemma span_app_stop p a b : Forall (fun c => p c = true) a ->
  (match b with [] => True | c :: _ => p c = false end) -> span p (a ++ b) = (a, b).
Proof.
  intros Ha Hb. induction Ha as [|c a Hc Ha IH]; cbn [app].
  - destruct b as [|c b]; [reflexivity|]. cbn. rewrite Hb. reflexivity.
  - cbn [span]. rewrite Hc, IH. reflexivity.
Qed.

Definition digits (l : text) : Prop := Forall (fun c => is_digit c = true) l.
Definition dollar (b : bool) : text := if b then [36] else [].

(* the shape of the regular expression *)
Definition label_shaped (s : text) (ca : bool) (ls : text) (ra : bool) (ds : text) : Prop :=
  s = dollar ca ++ ls ++ dollar ra ++ ds /\ ls <> [] /\ letters ls /\ ds <> [] /\ digits ds.

Lemma is_alpha_not_dollar_digit c : is_alpha c = true -> c <> 36 /\ is_digit c = false.
Proof. unfold is_alpha, is_upper, is_lower, is_digit. lia. Qed.
Lemma is_digit_not_dollar c : is_digit c = true -> c <> 36 /\ is_alpha c = false.
Proof. unfold is_alpha, is_upper, is_lower, is_digit. lia. Qed.

Lemma opt_dollar_spec b r : (match r with [] => True | c :: _ => c <> 36 end) ->
  opt_dollar (dollar b ++ r) = (b, r).
Proof.
  intros Hr. destruct b; cbn; [reflexivity|].
  destruct r as [|c r]; [reflexivity|].
  unfold opt_dollar. destruct c as [|p|p]; try reflexivity.
  do 6 (destruct p as [p|p|]; try reflexivity). congruence.
Qed.

Theorem extract_shaped s ca ls ra ds : label_shaped s ca ls ra ds ->
  extract_label s =
    Some ({| p_index := row_label_to_index ds; p_label := ds; p_abs := ra |},
          {| p_index := col_label_to_index ls; p_label := ls; p_abs := ca |}).
Proof.
  intros (-> & Hls & Hl & Hds & Hd). unfold extract_label.
  destruct ls as [|l0 ls']; [congruence|]. destruct ds as [|d0 ds']; [congruence|].
  inversion Hl as [|? ? Hl0 Hl']; inversion Hd as [|? ? Hd0 Hd']; subst.
  rewrite opt_dollar_spec by (cbn; apply is_alpha_not_dollar_digit; exact Hl0).
  rewrite (span_app_stop is_alpha (l0 :: ls') (dollar ra ++ d0 :: ds')); [| exact Hl |].
  2:{ destruct ra; cbn; [reflexivity|]. apply is_digit_not_dollar; exact Hd0. }
  rewrite opt_dollar_spec by (apply is_digit_not_dollar; exact Hd0).
  rewrite <- (app_nil_r (d0 :: ds')) at 1.
  rewrite (span_app_stop is_digit (d0 :: ds') []); [reflexivity| exact Hd | exact I].
Qed.

Lemma span_spec p l : let '(a, b) := span p l in
  l = a ++ b /\ Forall (fun c => p c = true) a /\ (match b with [] => True | c :: _ => p c = false end).
Proof.
  induction l as [|c l IH]; cbn [span]; [repeat split; constructor|].
  destruct (p c) eqn:E.
  - destruct (span p l) as [a b]. destruct IH as (-> & Ha & Hb). repeat split; [constructor; assumption|exact Hb].
  - repeat split; [constructor|exact E].
Qed.

Lemma opt_dollar_inv s : let '(b, r) := opt_dollar s in s = dollar b ++ r.
Proof.
  unfold opt_dollar. destruct s as [|c r]; [reflexivity|].
  destruct c as [|p|p]; try reflexivity.
  do 6 (destruct p as [p|p|]; try reflexivity).
Qed.

(* completeness of "None": anything that decomposes has the regex shape *)
Theorem extract_some_shaped s r c : extract_label s = Some (r, c) ->
  label_shaped s (p_abs c) (p_label c) (p_abs r) (p_label r).
Proof.
  unfold extract_label. pose proof (opt_dollar_inv s) as H1.
  destruct (opt_dollar s) as [cabs s1].
  pose proof (span_spec is_alpha s1) as H2. destruct (span is_alpha s1) as [ls s2].
  destruct ls as [|l0 ls']; [discriminate|].
  pose proof (opt_dollar_inv s2) as H3. destruct (opt_dollar s2) as [rabs s3].
  pose proof (span_spec is_digit s3) as H4. destruct (span is_digit s3) as [ds s4].
  destruct ds as [|d0 ds']; [discriminate|]. destruct s4; [|discriminate].
  intros E. inversion E; subst; clear E. cbn [p_abs p_label].
  destruct H2 as (-> & Hl & _). destruct H4 as (-> & Hd & _).
  repeat split; try congruence; try assumption.
  rewrite app_nil_r. reflexivity.
Qed.

Corollary extract_none s : (forall ca ls ra ds, ~ label_shaped s ca ls ra ds) -> extract_label s = None.
Proof.
  intros H. destruct (extract_label s) as [[r c]|] eqn:E; [|reflexivity].
  exfalso. eapply H. eapply extract_some_shaped. exact E.
Qed.

(* a cell label in the sense of the property: positive row number without leading zero *)
Definition row_number (ds : text) : Prop := exists n, 1 <= n /\ ds = dec_text_of n.

Theorem extract_to_label s ca ls ra ds :
  label_shaped s ca ls ra ds -> row_number ds ->
  exists r c, extract_label s = Some (r, c) /\
    p_abs r = ra /\ p_abs c = ca /\
    to_label r c = dollar ca ++ map upper_ascii ls ++ dollar ra ++ ds.
Proof.
  intros Hs (n & Hn & ->). rewrite (extract_shaped _ _ _ _ _ Hs).
  do 2 eexists. split; [reflexivity|]. cbn [p_abs]. split; [reflexivity|split;[reflexivity|]].
  destruct Hs as (_ & Hne & Hl & _ & _).
  unfold to_label. cbn [p_abs p_index]. rewrite col_rt2 by assumption.
  replace (row_label_to_index (dec_text_of n)) with (n - 1).
  2:{ destruct (row_rt (n - 1) ltac:(lia)) as [E1 E2]. replace (n - 1 + 1) with n in E1 by lia.
      rewrite E1 in E2. symmetry. exact E2. }
  destruct (row_rt (n - 1) ltac:(lia)) as [E1 _]. rewrite E1. replace (n - 1 + 1) with n by lia.
  unfold dollar. rewrite <- !app_assoc. reflexivity.
Qed.

(* upper-casing the whole label only touches the letters *)
Lemma upper_label ca ls ra ds : digits ds ->
  map upper_ascii (dollar ca ++ ls ++ dollar ra ++ ds) = dollar ca ++ map upper_ascii ls ++ dollar ra ++ ds.
Proof.
  intros Hd. rewrite !map_app. f_equal; [destruct ca; reflexivity|]. f_equal. f_equal; [destruct ra; reflexivity|].
  induction Hd as [|d ds Hd0 _ IH]; [reflexivity|]. cbn [map]. rewrite IH. f_equal.
  unfold upper_ascii, is_lower. unfold is_digit in Hd0. replace ((97 <=? d) && (d <=? 122)) with false by lia. reflexivity.
Qed.
