# -*- coding: utf-8 -*-
"""C04 - precedence, associativity, parentheses.  Theorems: Properties/C04.v over Gen/Grammar.v (generated)."""
import os
import sys
sys.set_int_max_str_digits(0)
from fractions import Fraction

import interp
from common import Result, pmap, compare, VERIF

ID = 'C04'
COQ_FILES = ['Properties/C04.v', 'Proofs/LRcert.v', 'Proofs/LRvalue.v', 'Proofs/LRfull.v', 'Proofs/ParensFull.v', 'Gen/Grammar.v']
TRUSTED = [
    'Gen/Grammar.v is regenerated on every run by tools/gen/grammar.py from the LIVE ply parser of the tree under test (the '
    'action/goto tables as loaded or rebuilt, productions with their grammar-action names, precedence, token numbering, '
    'lexer rule order and regex texts); anything the translator does not understand clears grammar_gen_ok / lexer_gen_ok',
    'modelled, not verified: ply 3.11 LRParser.parseopt_notrack (lazy token fetch, shift/reduce/accept, p_error raising) as '
    'Model/Interp.v lr_step, and the grammar actions as sem_action; both are tied by the correspondence of this check',
]
EXPLANATION = ('Coq theorems about the LALR tables ply actually uses, regenerated each run: a finite certificate (uniform shifts, '
               'shift-iff-lower-context-level, reductions on every terminator) closed by vm_compute; by induction on trees of any '
               'shape and depth, the driver parses the tokens of every well-parenthesised tree to that tree, and the REAL driver '
               'with the real grammar actions evaluates them to the post-order value of the tree; minimal and full renderings are '
               'well-parenthesised, denote the tree, evaluate identically and equal the exact integer evaluation; precedence is '
               'the usual one. Tied to the code by random trees rendered minimally / fully / with random extra parentheses '
               'through Parser.parse vs the interpreter model and vs an exact rational evaluation of the generating tree.')
ASSUMPTIONS = ['the fragment of the property: numeric/decimal literals, variables, cells, calls, unary minus, + - * /, one '
               'comparison per parenthesis-free region, & chains']


def gen(ctx):
    sys.path.insert(0, os.path.join(VERIF, 'tools', 'gen'))
    import grammar
    import registry
    a = grammar.write(os.path.join(VERIF, 'coq', 'Gen', 'Grammar.v'))
    b = registry.write(os.path.join(VERIF, 'coq', 'Gen', 'Registry.v'), os.environ.get('VERIF_SNAPSHOT', '/repo'))
    return {'Gen/Grammar.v': 'regenerated (changed)' if a else 'regenerated (identical to the committed baseline)',
            'Gen/Registry.v': 'regenerated (changed)' if b else 'regenerated (identical to the committed baseline)'}


# ---------------- trees ----------------
# ('num', text, Fraction) ('var', name) ('cell', label) ('call', name, [trees]) ('neg', t) ('bin', op, l, r)
PRIMES = [2, 3, 5, 7, 11, 13, 17, 19, 23, 29, 31, 37, 41, 43, 47, 53, 59, 61, 67, 71]
VARS = {'alpha': 83, 'beta': 89, 'rate': Fraction(5, 2), 'qq': 97}
CELLS = {'A1': 101, 'B2': 103, 'AA10': Fraction(1, 4), 'C3': 107, 'A$1': 109, '$B2': 113, '$C$3': 127}     # all three cell token kinds
LEVEL = {'*': 3, '/': 3, '+': 2, '-': 2, '&': 1, '<': 0, '>': 0, '=': 0, '<=': 0, '>=': 0, '<>': 0}


BIG = [(9007199254740993, 9007199254740992), (12345678901234569, 12345678901234567), (10 ** 16 + 1, 10 ** 16 - 2),
       (99999999999999999999, 99999999999999999990), (9007199254740992, 9007199254740995), (18014398509481985, 18014398509481984)]


def atom(rng):
    k = rng.randrange(10)
    if k < 5:
        if rng.random() < 0.06:
            # the difference of two integer literals of 16..20 digits (beyond 2^53: exact in the tree, exact in Python's
            # ints, a small integer as a value; kept as one subtree so that no float ever meets the long operands)
            a, b = rng.choice(BIG)
            return ('bin', '-', ('num', str(a), Fraction(a)), ('num', str(b), Fraction(b)))
        n = rng.choice(PRIMES)
        return ('num', str(n), Fraction(n))
    if k == 5:
        a, b = rng.choice(PRIMES), rng.choice(['5', '25', '125', '75', '0625'])
        return ('num', '%d.%s' % (a, b), Fraction('%d.%s' % (a, b)))
    if k == 6:
        return ('var', rng.choice(sorted(VARS)))
    if k == 7:
        return ('cell', rng.choice(sorted(CELLS)))
    if k == 8:
        return ('call', 'IDENT', [arith(rng, 1)])
    return ('call', 'SUM', [arith(rng, 1), arith(rng, 1)])


def factor(rng, d):
    if d > 0 and rng.random() < 0.2:
        return ('neg', factor(rng, d - 1))
    if d > 0 and rng.random() < 0.3:
        return arith(rng, d - 1)
    return atom(rng)


def term(rng, d):
    t = factor(rng, d)
    while d > 0 and rng.random() < 0.45:
        t = ('bin', rng.choice('*/'), t, factor(rng, d - 1))
    return t


def arith(rng, d):
    t = term(rng, d)
    while d > 0 and rng.random() < 0.45:
        t = ('bin', rng.choice('+-'), t, term(rng, d - 1))
    return t


def top(rng, d):
    r = rng.random()
    if r < 0.6:
        return arith(rng, d)
    if r < 0.85:
        return ('bin', rng.choice(['<', '>', '=', '<=', '>=', '<>']), arith(rng, d - 1), arith(rng, d - 1))
    # & chain over integer atoms / parenthesised integer sums
    n = rng.randint(2, 4)
    parts = [('num', str(rng.choice(PRIMES)), None) if rng.random() < 0.7 else ('bin', '+', ('num', str(rng.choice(PRIMES)), None), ('num', str(rng.choice(PRIMES)), None)) for _ in range(n)]
    t = parts[0]
    for p in parts[1:]:
        t = ('bin', '&', t, p)
    return t


def level(t):
    if t[0] == 'bin':
        return LEVEL[t[1]]
    return 9


def render(t, mode, rng=None):
    """mode 'min': parentheses only where the usual reading needs them; 'full': around every operand that is not an atom;
    'rand': minimal plus random redundant pairs"""
    def wrap(s):
        return '(' + s + ')'

    def go(t):
        k = t[0]
        if k == 'num':
            s = t[1]
        elif k == 'var':
            s = t[1]
        elif k == 'cell':
            s = t[1]
        elif k == 'call':
            s = '%s(%s)' % (t[1], ','.join(go(a) for a in t[2]))
        elif k == 'neg':
            inner = go(t[1])
            if mode == 'full' and t[1][0] in ('bin', 'neg'):
                inner = wrap(inner)
            elif t[1][0] == 'bin':
                inner = wrap(inner)
            s = '-' + inner
        else:
            op, l, r = t[1], t[2], t[3]
            ls, rs = go(l), go(r)
            if mode == 'full':
                if l[0] in ('bin', 'neg'):
                    ls = wrap(ls)
                if r[0] in ('bin', 'neg'):
                    rs = wrap(rs)
            else:
                if l[0] == 'bin' and level(l) < LEVEL[op]:
                    ls = wrap(ls)
                if r[0] == 'bin' and level(r) <= LEVEL[op]:
                    rs = wrap(rs)
                # the property's fragment: & operands and comparison operands that are themselves & / comparisons are
                # always parenthesised, and an arithmetic operand of & too (& binds tighter than * / here)
                if op == '&':
                    if l[0] == 'bin' and l[1] != '&':
                        ls = wrap(go(l))
                    if r[0] == 'bin':
                        rs = wrap(go(r))
            s = ls + op + rs
        if mode == 'rand' and rng.random() < 0.25:
            s = wrap(s)
        return s
    return go(t)


def exact(t):
    """independent exact evaluation: Fraction / bool / str, or 'DIV0'"""
    k = t[0]
    if k == 'num':
        return t[2] if t[2] is not None else Fraction(t[1])
    if k == 'var':
        return Fraction(VARS[t[1]])
    if k == 'cell':
        return Fraction(CELLS[t[1]])
    if k == 'call':
        vals = [exact(a) for a in t[2]]
        if 'DIV0' in vals:
            return 'DIV0'
        return vals[0] if t[1] == 'IDENT' else sum(Fraction(v) for v in vals)
    if k == 'neg':
        v = exact(t[1])
        return v if v == 'DIV0' else -Fraction(v)
    op = t[1]
    a, b = exact(t[2]), exact(t[3])
    if a == 'DIV0' or b == 'DIV0':
        return 'DIV0'
    if op == '&':
        def s(v):
            return v if isinstance(v, str) else str(int(v))
        return s(a) + s(b)
    a, b = Fraction(a), Fraction(b)
    if op == '+':
        return a + b
    if op == '-':
        return a - b
    if op == '*':
        return a * b
    if op == '/':
        return 'DIV0' if b == 0 else a / b
    return {'<': a < b, '>': a > b, '=': a == b, '<=': a <= b, '>=': a >= b, '<>': a != b}[op]


U = Fraction(1, 2 ** 53)


def err_bound(t):
    """(exact value, bound on the absolute error of the double evaluation) by standard forward error propagation; None when a
    comparison or a division is too close to call in floating point (the case is then skipped: the float caveat) or the value is
    not numeric.  Leaves are dyadic rationals and integers below 2^53: exact."""
    k = t[0]
    if k == 'num':
        return (t[2] if t[2] is not None else Fraction(t[1])), Fraction(0)
    if k == 'var':
        return Fraction(VARS[t[1]]), Fraction(0)
    if k == 'cell':
        return Fraction(CELLS[t[1]]), Fraction(0)
    if k == 'call':
        parts = [err_bound(a) for a in t[2]]
        if any(p is None for p in parts):
            return None
        if t[1] == 'IDENT':
            return parts[0]
        v = sum(p[0] for p in parts)
        mag = sum(abs(p[0]) + p[1] for p in parts)
        return v, sum(p[1] for p in parts) + len(parts) * U * mag
    if k == 'neg':
        return None if err_bound(t[1]) is None else (-err_bound(t[1])[0], err_bound(t[1])[1])
    op = t[1]
    if op == '&':
        return None
    a, b = err_bound(t[2]), err_bound(t[3])
    if a is None or b is None:
        return None
    (x, ex), (y, ey) = a, b
    if op == '+' or op == '-':
        v = x + y if op == '+' else x - y
        return v, ex + ey + U * (abs(v) + ex + ey)
    if op == '*':
        v = x * y
        e = abs(x) * ey + abs(y) * ex + ex * ey
        return v, e + U * (abs(v) + e)
    if op == '/':
        if abs(y) <= 2 * ey:
            return None
        v = x / y
        e = (ex + abs(v) * ey) / (abs(y) - ey)
        return v, e + U * (abs(v) + e)
    # comparison: decided in floating point only when the operands are clearly apart
    if abs(x - y) <= 2 * (ex + ey) and not (ex == 0 and ey == 0):
        return None
    return Fraction(0), Fraction(0)


def host():
    return dict(vars=[(k, (float(v) if isinstance(v, Fraction) else v)) for k, v in sorted(VARS.items())],
                funs=[('IDENT', 'ident', None)],
                cells=[(k, [float(v) if isinstance(v, Fraction) else v]) for k, v in sorted(CELLS.items())])


def case_of(formula, reenter=False):
    c = host()
    if reenter:
        c['funs'] = [('IDENT', 'ident_reenter', None)]
    c['formula'] = formula
    return c


def _impl(c):
    return interp.impl_case(c)


def tol_case(formula, t):
    """the case of a rendering, with the forward error bound of its tree (used by the model-vs-implementation comparison: the
    model computes in exact rationals, the implementation in doubles)"""
    c = case_of(formula)
    want = exact(t)
    if want == 'DIV0' or isinstance(want, str):
        c['_tol'] = '0'
    else:
        eb = err_bound(t)
        c['_tol'] = None if eb is None else str(4 * eb[1] + abs(eb[0]) * Fraction(1, 2 ** 50))
    return c


def loose_events(me, ie):
    """same events in the same order; numeric arguments of call events (intermediate values of a long double computation
    against exact rationals) within 1e-6 relative"""
    if len(me) != len(ie):
        return False
    for a, b in zip(me, ie):
        if a[0] != b[0]:
            return False
        if a[0] != 'fn':
            if tuple(a) != tuple(b):
                return False
            continue
        if a[1] != b[1] or len(a[2]) != len(b[2]):
            return False
        for x, y in zip(a[2], b[2]):
            if x[0] in ('I', 'F') and y[0] in ('I', 'F') and not isinstance(y[1], str) and not isinstance(x[1], str):
                if abs(Fraction(x[1]) - Fraction(y[1])) > Fraction(1, 10 ** 6) * max(1, abs(Fraction(x[1]))):
                    return False
            elif x != y:
                return False
    return True


def eq_tol(c, model, impl):
    if '_tol' not in c:
        return interp.eq_case(model, impl)
    if c['_tol'] is None:
        return True          # too close to call in floating point: not compared
    mrec, mev = interp.dec_model(model)
    irec, iev = impl
    if mrec == ('UNMODELLED',):
        return True
    if not loose_events(mev, iev):
        return False
    if mrec[0] == 'R' and irec[0] == 'R' and mrec[1][0] in ('I', 'F') and irec[1][0] in ('I', 'F') and not isinstance(irec[1][1], str):
        return abs(Fraction(mrec[1][1]) - Fraction(irec[1][1])) <= Fraction(c['_tol']) or interp.same_value(mrec[1], irec[1])
    return mrec == irec


def check_tree(c):
    """the three renderings evaluate identically and equal the exact evaluation of the tree"""
    t, fmin, ffull, frand = c
    want = exact(t)
    eb = err_bound(t) if want != 'DIV0' and not isinstance(want, str) else (0, 0)
    if eb is None:
        return []            # too close to call in floating point (a comparison / divisor within the rounding error bound)
    out = []
    got = {}
    for name, f in (('minimal', fmin), ('full', ffull), ('random-extra', frand)):
        rec, _ = interp.impl_case(case_of(f))
        got[name] = rec
        if want == 'DIV0':
            ok = rec == ('E', '#DIV/0!')
        elif isinstance(want, bool):
            ok = rec == ('R', ('B', int(want)))
        elif isinstance(want, str):
            ok = rec == ('R', ('T', want))
        else:
            ok = rec[0] == 'R' and rec[1][0] in ('I', 'F') and not isinstance(rec[1][1], str) and \
                abs(Fraction(rec[1][1]) - want) <= 4 * eb[1] + abs(want) * Fraction(1, 2 ** 50)
        if not ok:
            out.append(('%s rendering %s' % (name, f), None, str(want), rec))
    # a host function that itself evaluates a formula on the same parser before returning is still the same function
    if 'IDENT(' in fmin:
        for name, f in (('minimal', fmin), ('full', ffull)):
            rec, _ = interp.impl_case(case_of(f, reenter=True))
            if rec != got[name]:
                out.append(('%s rendering %s with IDENT re-entering the parser' % (name, f), None, repr(got[name]), repr(rec)))
    # whatever the rounding, the three renderings denote the same tree: their outcomes are identical
    if len(set(map(repr, got.values()))) != 1:
        out.append(('the three renderings disagree: %s | %s | %s' % (fmin, ffull, frand), None, repr(got['minimal']), repr(got)))
    return out


# equal values reached as an int on one side and as a float on the other (and near misses): the value decides, not the type
FIXED_VALUES = {'6/3=2': True, '2=6/3': True, '1.5+1.5<>3': False, '2+1>=0.5*6': True, '4/2<=2': True, '3*1.0=3': True, '10/4=2.5': True,
                '7/2>3': True, '7/2<4': True, '6/3<2': False, '6/3>2': False, '2*0.5=1': True, '1=2*0.5': True, '0.5+0.5<>1': False,
                '(6/3=2)*5': 5, '10-9.5=0.5': True, '1/4=0.25': True, '3=3.0': True, '3.0=3': True, '3<>3.0': False, '2^2=4.0': True,
                '9/3>=3': True, '9/3<=3': True, '8/2-4=0': True, '0=8/2-4': True, '-6/3=-2': True}


def check_fixed(f):
    import hotxlfp
    r = hotxlfp.Parser().parse(f)
    want = FIXED_VALUES[f]
    if r['error'] is not None or r['result'] != want or type(r['result']) is not type(want):
        return [(f, None, want, r)]
    return []


def check_case(case):
    if 'fixed' in case:
        return [{'case': case, 'what': w, 'class': cls, 'expected': repr(e), 'observed': repr(g)} for (w, cls, e, g) in check_fixed(case['fixed'])]
    if 'tree' in case:
        c = case['tree']
        return [{'case': case, 'what': w, 'class': cls, 'expected': repr(e), 'observed': repr(g)} for (w, cls, e, g) in check_tree(retuple(c))]
    return []


def retuple(x):
    if isinstance(x, list):
        if x and isinstance(x[0], str) and x[0] in ('num', 'var', 'cell', 'call', 'neg', 'bin'):
            if x[0] == 'num':
                return ('num', x[1], Fraction(x[2]) if x[2] is not None else None)
            if x[0] == 'call':
                return ('call', x[1], [retuple(a) for a in x[2]])
            return tuple(retuple(y) for y in x)
        return [retuple(y) for y in x]
    return x


def freeze(t):
    if isinstance(t, tuple):
        return [freeze(x) for x in t]
    if isinstance(t, list):
        return [freeze(x) for x in t]
    if isinstance(t, Fraction):
        return str(t)
    return t


def _worker(c):
    return [(c,) + x for x in check_tree(c)]


def explore(ctx):
    R = Result()
    rng = ctx.rng
    N = 60000 if ctx.thorough else 2500
    maxd = 5 if ctx.thorough else 4
    trees = []
    shapes = {}
    while len(trees) < N:
        d = rng.randint(1, maxd)
        t = top(rng, d)
        fmin = render(t, 'min')
        if len(fmin) > 1200:
            continue             # exact rational evaluation of the oracle grows exponentially with the size: keep formulas readable
        trees.append((t, fmin, render(t, 'full'), render(t, 'rand', rng)))
        shapes[d] = shapes.get(d, 0) + 1
    # deep trees: left-leaning chains of n operators (fully parenthesised: n levels of nesting) - "of any shape and depth"
    for n in (10, 40, 63, 64, 65, 66, 100, 150):
        for ops in ('+-', '*/', '+-*/'):
            t = ('num', str(PRIMES[0]), Fraction(PRIMES[0]))
            for i in range(n):
                p_ = PRIMES[(i * 7 + n) % len(PRIMES)]
                t = ('bin', ops[(i * 5 + n) % len(ops)], t, ('num', str(p_), Fraction(p_)))
            if ops == '+-' or n <= 66:
                trees.append((t, render(t, 'min'), render(t, 'full'), render(t, 'rand', rng)))
    fixed = ['(' * k + '1+2' + ')' * k + '*3' for k in (1, 10, 63, 64, 65, 66, 100, 300)] + ['-' + '(' * k + '7' + ')' * k for k in (64, 65, 200)]
    fixed += sorted(FIXED_VALUES) + ['1+2*3', '(1+2)*3', '2*3+1', '8/4/2', '8/(4/2)', '8-4-2', '8-(4-2)', '-2*3', '-(2*3)', '2*-3', '2--3', '2/-3/4', '2/-3*4',
             '1+2<3+4', '1<2=TRUE', '(1<2)', '(1<2)*5', '1&2&3', '1&2=12', '-1&2', '(1+2)&3', '2*3&4', '1+2&3', '--2', '-(-2)', '((1))',
             '(((1+2)))*(3)', '1-2+3', '1/2*4', '12/-alpha/2', '10/-A1*5']
    cases = [tol_case(f, tr[0]) for tr in trees for f in tr[1:]] + [case_of(f) for f in fixed]
    compare(R, ctx, 'parse', cases, interp.enc_case, _impl, key=lambda c: c['formula'], eqc=eq_tol)
    for vs in pmap(_worker, trees):
        for (c, w, cls, e, g) in vs:
            R.violate({'tree': freeze(c)}, w, cls, repr(e), repr(g))
    R.evaluations += len(trees)
    for f in sorted(FIXED_VALUES):
        for (w, cls, e, g) in check_fixed(f):
            R.violate({'fixed': f}, w, cls, repr(e), repr(g))
    R.evaluations += len(FIXED_VALUES)
    R.extra['tree_depths'] = shapes
    R.rule = ('random expression trees (depth 1..%d) over prime integer / dyadic decimal literals, variables, cells (via '
              'listener), IDENT/SUM calls, unary minus, + - * /, one comparison per parenthesis-free region and & chains; each '
              'rendered minimally, fully parenthesised and with random redundant parentheses; every rendering through '
              'Parser.parse vs the interpreter model (records and reference events) and vs an exact rational evaluation of the '
              'generating tree (leaves are distinct primes so that any regrouping changes the value).' % maxd)
    return R


def search(ctx, proof, res):
    """A broken certificate / correspondence: look for a formula whose value differs from the usual reading."""
    R = Result()
    rng = ctx.rng
    trees = []
    for _ in range(40000):
        t = top(rng, rng.randint(1, 4))
        trees.append((t, render(t, 'min'), render(t, 'full'), render(t, 'rand', rng)))
    # all two-operator combinations over distinct primes: reaches every (context, lookahead) cell of the operator states
    ops = ['+', '-', '*', '/']
    for a in ops:
        for b in ops:
            t1 = ('bin', b, ('bin', a, ('num', '2', Fraction(2)), ('num', '3', Fraction(3))), ('num', '5', Fraction(5)))
            t2 = ('bin', a, ('num', '2', Fraction(2)), ('bin', b, ('num', '3', Fraction(3)), ('num', '5', Fraction(5))))
            t3 = ('bin', a, ('num', '2', Fraction(2)), ('neg', ('bin', b, ('num', '3', Fraction(3)), ('num', '5', Fraction(5)))))
            t4 = ('bin', b, ('bin', a, ('num', '2', Fraction(2)), ('neg', ('num', '3', Fraction(3)))), ('num', '5', Fraction(5)))
            for t in (t1, t2, t3, t4):
                trees.append((t, render(t, 'min'), render(t, 'full'), render(t, 'min')))
    for vs in pmap(_worker, trees):
        for (c, w, cls, e, g) in vs:
            R.violate({'tree': freeze(c)}, w, cls, repr(e), repr(g))
    R.evaluations = len(trees)
    return R
